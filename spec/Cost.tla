-------------------------------- MODULE Cost --------------------------------
(***************************************************************************)
(* Comparison-count bounds (property C05).  n is the number of elements    *)
(* the operation works on (the larger of the sizes before and after).      *)
(*                                                                         *)
(* The constants are derived from the transcription (MaxHeap / MinMaxHeap) *)
(* and are part of the specification, not tuned at run time:               *)
(*  max-heap   sift-up: 1 comparison per level; sift-down: 2 per level;    *)
(*             up_heapify = sift-up + sift-down; push_increase/decrease    *)
(*             add 1                                 =>  <= 3 H + 2        *)
(*  min-max    trickle-down: <= 5 (min_by_key over 6 candidates) + 2 per   *)
(*             TWO levels; bubble_up: 1 + 1 per two levels; up_heapify =   *)
(*             bubble_up + two trickle-downs; find_max: 1                  *)
(*                                                   =>  <= 8 H + 8        *)
(*  rebuilds   Floyd's heap_build: max-heap <= 2 n; min-max: a node of     *)
(*             height 1 costs 2, height 2 costs 7, then +2 / +5 per level  *)
(*             alternately, summing to about 3 n     =>  <= 3 n + 4 resp.  *)
(*                                                       5 n + 16          *)
(*  (measured on the pinned code up to n = 2^16: max-heap <= 1.9 H and     *)
(*   1.7 n, min-max <= 3.6 H and 2.6 n)                                    *)
(* with H = floor(log2(n + 1)) + 1.  MCQueue checks them against the exact *)
(* worst case of the modelled algorithms for every reachable state of the  *)
(* exhaustive universes; TraceCost checks them against the comparison      *)
(* counts measured on the real code for n up to 2^16 (quick) / 2^20.       *)
(***************************************************************************)
EXTENDS Integers

RECURSIVE CLog2(_)
CLog2(x) == IF x <= 1 THEN 0 ELSE 1 + CLog2(x \div 2)
H(n) == CLog2(n + 1) + 1

LogOps == {"push", "push_increase", "push_decrease", "change_priority", "change_priority_by", "remove",
           "pop", "pop_min", "pop_max", "pop_if", "pop_min_if", "pop_max_if"}
FreeOps == {"peek", "peek_min", "peek_mut", "peek_min_mut", "get", "get_priority", "get_mut", "len", "is_empty",
            "clear", "drain", "reserve", "reserve_exact", "try_reserve", "try_reserve_exact", "shrink_to_fit", "fill"}
OneOps  == {"peek_max", "peek_max_mut"}
LinOps  == {"from_vec", "from_iter", "append", "retain", "retain_mut", "iter_mut", "convert", "de", "roundtrip"}

BoundLog(kind, n) == IF kind = "pq" THEN 3 * H(n) + 2 ELSE 8 * H(n) + 8
BoundLin(kind, n) == IF kind = "pq" THEN 3 * n + 4 ELSE 5 * n + 16

\* -1: no bound claimed for this operation
Bound(kind, op, n) ==
  CASE op \in LogOps  -> BoundLog(kind, n)
    [] op \in FreeOps -> 0
    [] op \in OneOps  -> 1
    [] op \in LinOps  -> BoundLin(kind, n)
    [] OTHER          -> -1
Within(kind, op, n, cmps) == Bound(kind, op, n) = -1 \/ cmps <= Bound(kind, op, n)
=============================================================================
