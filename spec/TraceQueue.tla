---------------------------- MODULE TraceQueue ----------------------------
(***************************************************************************)
(* Trace specification: validates an ndjson trace recorded from the real   *)
(* PriorityQueue / DoublePriorityQueue against the abstract layer, one     *)
(* event per step, and runs the concrete layer as a twin (drift).          *)
(*                                                                         *)
(* The validator is TOTAL: a failed predicate never disables the step.     *)
(* It prints <<"FAIL", line, op, kind, {tags}>>, adopts the logged state   *)
(* and continues, so the rest of the trace is still checked.  POSTCONDITION*)
(* only checks that the whole trace was consumed.                          *)
(*   TRACE=<file> tlc -workers 1 -config TraceQueue.cfg TraceQueue.tla     *)
(***************************************************************************)
EXTENDS Ops, IterProto, Cost, Json, IOUtils

Rec == ndJsonDeserialize(IOEnv.TRACE)
NoDrift == "NODRIFT" \in DOMAIN IOEnv

VARIABLES l,      \* next line of the trace
          abs,    \* queue id -> contents map
          con,    \* queue id -> last logged concrete store [keys, pri, heap, qp, size]
          ord,    \* queue id -> TRUE iff the order is specified (FALSE after a leaked iter_mut)
          taint   \* queue ids on which an injected fault was caught (C10): contents, order and length are
                  \* unspecified from then on; only memory safety (no abort, drop balance) is demanded
vars == <<l, abs, con, ord, taint>>

e == Rec[l]
Live(q) == q \in DOMAIN abs

\* ------------------------------------------------------------------ snapshot handling
SnapCon(s) == [keys |-> s.keys, pri |-> s.r, heap |-> s.heap, qp |-> s.qp, size |-> s.size]
SnapWF(s)  == s.mlen = Len(s.keys) /\ WF(SnapCon(s))
SnapProj(s) == [k \in {s.keys[i] : i \in 1..Len(s.keys)} |->
                  LET i == CHOOSE i \in 1..Len(s.keys) : s.keys[i] = k IN
                  [pay |-> s.pay[i], r |-> s.r[i], t |-> s.t[i]]]
SnapOrd(s, kind) == IF kind = "pq" THEN PqOrd(SnapCon(s)) ELSE DqOrd(SnapCon(s))
NoPay(a) == [k \in DOMAIN a |-> [r |-> a[k].r, t |-> a[k].t]]
NoTag(a) == [k \in DOMAIN a |-> a[k].r]

\* failures of the logged snapshot against the expected contents
\* ("order" is reported only by the step that broke it: prev = the previous logged store of the queue)
SnapFails(s, kind, expected, ordered, prev) ==
  IF ~SnapWF(s) THEN {"wf"} ELSE
  (IF ordered /\ ~SnapOrd(s, kind) /\ (IF kind = "pq" THEN PqOrd(prev) ELSE DqOrd(prev)) THEN {"order"} ELSE {})
  \cup (IF SnapProj(s) = expected THEN {}
        ELSE IF NoPay(SnapProj(s)) = NoPay(expected) THEN {"payload"}
        ELSE IF NoTag(SnapProj(s)) = NoTag(expected) THEN {"tag"}
        ELSE {"contents"})

\* in unordered mode (after a leaked iter_mut guard) only storedness is demanded of peeks/pops
Relax(tags, q) == IF ord[q] THEN tags
                  ELSE tags \ {"peek_extreme", "pop_extreme", "popif_extreme", "sorted_order", "order"}

\* operations after which the heap order has been rebuilt from scratch
Rebuilds == {"retain", "retain_mut", "convert", "clear", "drain", "from_vec", "from_iter", "de", "new", "append"}

\* which panics are allowed: the documented capacity-overflow panics of reserve / reserve_exact
PanicAllowed == e.op \in {"reserve", "reserve_exact"} /\ e.cls # "small"

Report(tags, kind) == IF tags = {} THEN TRUE ELSE PrintT(<<"FAIL", l, e.op, kind, tags>>)

\* ------------------------------------------------------------------ concrete twin (drift)
\* the event as an operation of the alphabet (Ops.tla), applied to the last logged store
SetFn(seq) == LET hit == {i \in 1..Len(seq) : seq[i].set # <<>>} IN
              [k \in {seq[i].k : i \in hit} |-> seq[CHOOSE i \in hit : seq[i].k = k].set[1].r]
PairSeq(p) == [i \in 1..Len(p) |-> <<p[i].k, p[i].r>>]
SetOf(x) == IF x = <<>> THEN <<>> ELSE <<x[1].r>>
OpOfEvent ==
  CASE e.op \in {"push", "push_increase", "push_decrease", "change_priority", "change_priority_by"}
         -> [op |-> e.op, k |-> e.k, r |-> e.r]
    [] e.op = "remove" -> [op |-> e.op, k |-> e.k]
    [] e.op = "drain" -> [op |-> e.op, n |-> e.n]
    [] e.op \in {"pop_if", "pop_min_if", "pop_max_if"} -> [op |-> e.op, yes |-> e.yes, set |-> SetOf(e.set)]
    [] e.op \in {"retain", "retain_mut"} ->
         [op |-> e.op, keep |-> {e.calls[i].k : i \in {j \in 1..Len(e.calls) : e.calls[j].keep}}, set |-> SetFn(e.calls)]
    [] e.op = "iter_mut" -> [op |-> e.op, n |-> e.nf, nb |-> e.nb, bf |-> e.bf, set |-> SetFn(e.ys), forget |-> e.forget]
    [] e.op \in {"extend", "from_vec", "from_iter", "de"} ->
         [op |-> e.op, pairs |-> PairSeq(e.pairs), hint |-> IF "hint" \in DOMAIN e THEN e.hint ELSE <<>>]
    [] OTHER -> [op |-> e.op]
Other(kind) == IF kind = "pq" THEN "dpq" ELSE "pq"
ConOp(s, kind) == Apply(IF e.op = "convert" THEN Other(kind) ELSE kind, s, OpOfEvent, Inf)
ConNew(kind) == Apply(kind, Empty, OpOfEvent, Inf)
\* the twin is only run from a well-formed previous store (the operators are total on the stores the crash
\* model can produce, not on arbitrary corrupted ones)
TablesOK(s) == /\ Len(s.heap) = s.size /\ Len(s.qp) = s.size /\ Len(s.keys) = Len(s.pri) /\ Len(s.keys) <= s.size
               /\ \A p \in 1..s.size : s.heap[p] \in 0..(s.size-1) /\ s.qp[s.heap[p]+1] = p-1
Drift(r) == IF NoDrift \/ e.hs = 0 THEN TRUE
            ELSE IF r.out # "ok" THEN PrintT(<<"DRIFT", l, e.op, "model_" \o r.out>>)
            ELSE IF r.st # SnapCon(e.snap) THEN PrintT(<<"DRIFT", l, e.op, "state">>)
            ELSE IF e.op \in Modelled /\ INF - r.fuel.cmp # e.cmps THEN PrintT(<<"DRIFT", l, e.op, "cmps", INF - r.fuel.cmp, e.cmps>>)
            ELSE TRUE

\* ------------------------------------------------------------------ the step
Upd(f, q, v) == [x \in DOMAIN f \cup {q} |-> IF x = q THEN v ELSE f[x]]
Del(f, q) == [x \in DOMAIN f \ {q} |-> f[x]]
SnapOrElse(dflt) == IF e.hs = 1 /\ SnapWF(e.snap) THEN SnapProj(e.snap) ELSE dflt
ConOrElse(dflt) == IF e.hs = 1 THEN SnapCon(e.snap) ELSE dflt

\* adopt: expected contents when everything matched, else the logged contents
Adopt(q, tags, expected) ==
  /\ abs' = Upd(abs, q, IF tags = {} THEN expected ELSE SnapOrElse(expected))
  /\ con' = Upd(con, q, ConOrElse(Empty))

\* ------------------------------------------------------------------ faults (C10)
Injected == "injected" \in DOMAIN e /\ e.injected > 0
TaintedEv == e.op \notin {"reset", "balance"} /\
             (Injected \/ e.q \in taint \/ ("src" \in DOMAIN e /\ e.src \in taint) \/ ("o" \in DOMAIN e /\ e.o \in taint))
FuelOfFault == IF "fault" \notin DOMAIN e THEN Inf
               ELSE IF "cmp" \in DOMAIN e.fault THEN [Inf EXCEPT !.cmp = e.fault.cmp]
               ELSE IF "cb" \in DOMAIN e.fault THEN [Inf EXCEPT !.cb = e.fault.cb]
               ELSE Inf
ModelledFault == "fault" \in DOMAIN e /\ ("cmp" \in DOMAIN e.fault \/ "cb" \in DOMAIN e.fault)
\* After a caught injected panic nothing is demanded of the queue but memory safety, which the harness
\* observes (no abort, drop balance).  The crash-point semantics of the concrete layer are still compared
\* with what the real unwinding left behind (drift): MCFault's NoUB claim is about that layer.
StepTainted ==
  /\ TaintedEv
  /\ LET q == e.q
         gone == e.op \in {"drop", "forget_queue"} \/ e.kind = "none"
         \* (clone_into: the source q is untouched; a completed clone lives in queue e.to and is dropped at the end)
         prev == IF e.op = "clone" /\ e.src \in DOMAIN con THEN con[e.src] ELSE IF q \in DOMAIN con THEN con[q] ELSE Empty
         r == Apply(IF e.op = "convert" THEN Other(e.kind) ELSE e.kind, prev, OpOfEvent, FuelOfFault)
         cmp == e.hs = 1 /\ ~NoDrift /\ TablesOK(prev) /\ e.op \in Modelled /\ e.op \notin {"from_vec", "from_iter", "de", "roundtrip"}
                /\ (Injected => ModelledFault) IN
     /\ (IF ~cmp THEN TRUE
         ELSE IF r.out = "ub" THEN PrintT(<<"DRIFT", l, e.op, "model_ub_not_observed">>)
         ELSE IF (r.out = "panic") # (e.panic = 1) THEN PrintT(<<"DRIFT", l, e.op, "crash_outcome", r.out, e.panic>>)
         ELSE IF r.st # SnapCon(e.snap) THEN PrintT(<<"DRIFT", l, e.op, "crash_state">>)
         ELSE TRUE)
     /\ taint' = (IF gone THEN taint \ {q} ELSE taint \cup {q})
     /\ abs' = (IF gone THEN Del(abs, q) ELSE Upd(abs, q, SnapOrElse(IF q \in DOMAIN abs THEN abs[q] ELSE EmptyMap)))
     /\ con' = (IF gone THEN Del(con, q) ELSE Upd(con, q, ConOrElse(prev)))
     /\ ord' = (IF gone THEN Del(ord, q) ELSE Upd(ord, q, FALSE))

StepReset ==
  /\ e.op = "reset"
  /\ abs' = [x \in {} |-> 0] /\ con' = [x \in {} |-> 0] /\ ord' = [x \in {} |-> TRUE] /\ taint' = {}

\* creation of a queue: new, from_vec, from_iter, de (JSON), roundtrip (serialize src, deserialize as q)
StepCreate ==
  /\ ~TaintedEv
  /\ e.op \in {"new", "from_vec", "from_iter", "de", "roundtrip"}
  /\ LET q == e.q
         ok == e.panic = 0 /\ (e.op \notin {"de", "roundtrip"} \/ e.ret = "ok")
         res == IF ok /\ e.hs = 1 /\ SnapWF(e.snap) THEN SnapProj(e.snap) ELSE EmptyMap
         tags == (IF e.panic = 1 THEN {"panic"} ELSE {})
                 \cup (IF e.op = "roundtrip" /\ e.panic = 0
                       THEN T(e.ret # "ser_err", "ser_err") \cup T(e.ret # "de_err", "de_err")
                            \cup T(e.ret = "ser_err" \/ BagOK(abs[e.src], e.listing), "ser_listing")
                       ELSE {})
                 \cup (IF ~ok THEN {} ELSE
                       (IF e.hs = 1 /\ ~SnapWF(e.snap) THEN {"wf"} ELSE {})
                       \cup (IF e.hs = 1 /\ SnapWF(e.snap) /\ ~SnapOrd(e.snap, e.kind) THEN {"order"} ELSE {})
                       \cup (CASE e.op = "new"       -> T(res = EmptyMap, "contents") \cup T(e.cap >= e.reqcap, "cap_low")
                               [] e.op = "from_vec"  -> T(res = N_fromvec(e), "bulk_contents")
                               [] e.op = "from_iter" -> T(OK_fromiter(e, res), "bulk_contents")
                               [] e.op = "de"        -> T(OK_de(e, res), "de_contents")
                               [] e.op = "roundtrip" -> T(res = abs[e.src], "de_roundtrip")))
     IN /\ Report(tags, e.kind)
        /\ (IF ok /\ e.op \in {"from_vec", "from_iter", "de"} THEN Drift(ConNew(e.kind))
            ELSE IF ok /\ e.op = "roundtrip" /\ WF(con[e.src]) THEN Drift(Apply(e.kind, con[e.src], [op |-> "roundtrip"], Inf)) ELSE TRUE)
        /\ taint' = taint
        /\ IF ok THEN /\ abs' = Upd(abs, q, res) /\ con' = Upd(con, q, ConOrElse(Empty)) /\ ord' = Upd(ord, q, TRUE)
           ELSE /\ abs' = Del(abs, q) /\ con' = Del(con, q) /\ ord' = Del(ord, q)

\* deserialization from serde tokens: the value is only observed through its snapshot (e.dsnap)
StepDeTokens ==
  /\ ~TaintedEv
  /\ e.op = "de_tokens"
  /\ LET tags == IF e.panic = 1 THEN {"panic"}
                 ELSE IF e.ret # "ok" THEN {}
                 ELSE IF ~SnapWF(e.dsnap) THEN {"wf"}
                 ELSE (IF SnapOrd(e.dsnap, e.tokkind) THEN {} ELSE {"order"})
                      \cup T(OK_de(e, SnapProj(e.dsnap)), "de_contents")
     IN Report(tags, e.tokkind)
  /\ UNCHANGED <<abs, con, ord, taint>>

StepClone ==
  /\ ~TaintedEv
  /\ e.op \in {"clone", "clone_from"}
  /\ LET tags == (IF e.panic = 1 THEN {"panic"} ELSE {})
                 \cup (IF e.panic = 0 /\ e.hs = 1 THEN SnapFails(e.snap, e.kind, abs[e.src], ord[e.src], Empty) ELSE {})
                 \cup (IF e.panic = 0 /\ e.hs = 1 /\ ~NoDrift /\ SnapCon(e.snap) # con[e.src] THEN {"clone_layout"} ELSE {})
     IN /\ Report(Relax(tags \ {"clone_layout"}, e.src), e.kind)
        /\ (IF "clone_layout" \in tags THEN PrintT(<<"DRIFT", l, e.op, "layout">>) ELSE TRUE)
        /\ IF e.panic = 0
           THEN /\ Adopt(e.q, tags \ {"clone_layout"}, abs[e.src]) /\ ord' = Upd(ord, e.q, ord[e.src]) /\ taint' = taint
           ELSE UNCHANGED <<abs, con, ord, taint>>

StepDrop ==
  /\ ~TaintedEv
  /\ e.op \in {"drop", "forget_queue"}
  /\ Report(IF e.panic = 1 THEN {"panic"} ELSE {}, "none")
  /\ abs' = Del(abs, e.q) /\ con' = Del(con, e.q) /\ ord' = Del(ord, e.q) /\ taint' = taint

StepEq ==
  /\ ~TaintedEv
  /\ e.op \in {"eq", "ne"}
  /\ LET same == SameContents(abs[e.q], abs[e.o])
         \* twin: a source and its clone after the same operations on both - they must still be equal
         tags == IF e.panic = 1 THEN {"panic"}
                 ELSE T(e.ret = (IF e.op = "eq" THEN same ELSE ~same), "eq")
                      \cup (IF "twin" \in DOMAIN e /\ e.twin THEN T(e.ret = (e.op = "eq"), "clone_diverged") ELSE {}) IN
     Report(tags, e.kind)
  /\ UNCHANGED <<abs, con, ord, taint>>

StepAppend ==
  /\ ~TaintedEv
  /\ e.op = "append"
  /\ LET q == e.q  o == e.o
         res  == SnapOrElse(abs[q])
         ores == IF "osnap" \in DOMAIN e THEN SnapProj(e.osnap) ELSE EmptyMap
         tags == (IF e.panic = 1 THEN {"panic"} ELSE {})
                 \cup (IF e.hs = 1 /\ ~SnapWF(e.snap) THEN {"wf"} ELSE {})
                 \cup (IF e.hs = 1 /\ SnapWF(e.snap) /\ ~SnapOrd(e.snap, e.kind) THEN {"order"} ELSE {})
                 \cup T(e.hs = 0 \/ OK_append(abs[q], abs[o], Cardinality(DOMAIN abs[o]) > Cardinality(DOMAIN abs[q]), res), "append_contents")
                 \cup T(ores = EmptyMap, "append_other_nonempty")
     IN /\ Report(tags, e.kind)
        /\ abs' = Upd(Upd(abs, q, res), o, ores)
        /\ con' = Upd(Upd(con, q, ConOrElse(Empty)), o, IF "osnap" \in DOMAIN e THEN SnapCon(e.osnap) ELSE Empty)
        /\ ord' = Upd(Upd(ord, q, TRUE), o, TRUE) /\ taint' = taint

\* iterator call sequences (engine C): the protocol contract of IterProto.tla, plus the effect on the
\* queue: drain empties it as soon as it is called, however much is consumed; the others leave the contents
StepIterCalls ==
  /\ ~TaintedEv
  /\ e.op \in {"iter_calls", "into_calls"}
  /\ LET q == e.q
         a == abs[q]
         isDrain == e.op = "iter_calls" /\ e.it = "drain"
         isMut == e.op = "iter_calls" /\ e.it \in {"iter_mut", "iter_mut_ref"}
         ordered == IF isDrain THEN TRUE ELSE IF isMut THEN ~e.forget ELSE ord[q]
         expected == IF isDrain THEN EmptyMap ELSE a
         res == NormCalls(e.res)
         aref == IF "ref" \in DOMAIN e THEN AdaptRef(e.adapt, e.k, e.ref) ELSE <<>>
         tags == ProtoFails(res, Elems(a), e.adapt, e.k, e.panic = 1)
                 \cup (IF e.it = "sorted" /\ e.adapt \in {"", "none"} THEN OrderWalk(res, 1, Elems(a), e.kind) ELSE {})
                 \cup (IF e.it # "sorted" /\ "ref" \in DOMAIN e /\ Len(e.ref) = Cardinality(DOMAIN a)
                       THEN PosWalk(res, aref, 1, 0, Len(aref)) ELSE {})
                 \cup (IF e.op = "iter_calls" /\ e.hs = 1
                       THEN LET sf == SnapFails(e.snap, e.kind, expected, ordered, Empty) IN
                            IF isDrain /\ sf \cap {"contents", "payload", "tag"} # {} THEN (sf \ {"contents", "payload", "tag"}) \cup {"drain_not_empty"} ELSE sf
                       ELSE {})
     IN /\ Report(tags, e.kind)
        /\ IF e.op = "iter_calls"
           THEN /\ Adopt(q, tags, expected) /\ ord' = Upd(ord, q, ordered) /\ taint' = taint
           ELSE UNCHANGED <<abs, con, ord, taint>>

StepBalance ==
  /\ e.op = "balance"
  /\ Report(IF e.queues = 0 /\ (e.live_items # 0 \/ e.live_pris # 0) THEN {"drop_balance"} ELSE {}, "none")
  /\ UNCHANGED <<abs, con, ord, taint>>

StepOp ==
  /\ ~TaintedEv
  /\ e.op \notin {"reset", "new", "from_vec", "from_iter", "de", "roundtrip", "de_tokens", "clone", "clone_from", "drop", "forget_queue",
                  "eq", "ne", "append", "iter_calls", "into_calls", "balance"}
  /\ LET q == e.q
         a == abs[q]
         j == IF e.panic = 1 THEN [f |-> (IF PanicAllowed THEN {} ELSE {"panic"}), n |-> a] ELSE Judge(a, e)
         ordered == IF e.op \in Rebuilds \/ (e.op = "iter_mut" /\ ~e.forget) THEN TRUE
                    ELSE IF e.op = "iter_mut" /\ e.forget THEN FALSE ELSE ord[q]
         sf == IF e.hs = 1 THEN SnapFails(e.snap, e.kind, j.n, ordered, IF e.op = "convert" THEN Empty ELSE con[q]) ELSE {}
         \* comparison count of this call against Cost!Bound for the size it worked on (C05)
         nmax == IF e.hs = 1 /\ e.snap.size > con[q].size THEN e.snap.size ELSE con[q].size
         cf == IF e.panic = 0 /\ e.hs = 1 /\ ~Within(e.kind, e.op, nmax, e.cmps) THEN {"cost"} ELSE {}
         tags == IF e.panic = 1 THEN j.f \cup (sf \cap {"wf"}) ELSE Relax(j.f, q) \cup sf \cup cf
     IN /\ Report(tags, e.kind)
        /\ (IF e.panic = 0 /\ WF(con[q]) THEN Drift(ConOp(con[q], e.kind)) ELSE TRUE)
        /\ Adopt(q, tags, j.n)
        /\ ord' = Upd(ord, q, ordered) /\ taint' = taint

Init == l = 1 /\ abs = [x \in {} |-> 0] /\ con = [x \in {} |-> 0] /\ ord = [x \in {} |-> TRUE] /\ taint = {}
Next == /\ l <= Len(Rec) /\ l' = l + 1
        /\ (StepReset \/ StepTainted \/ StepCreate \/ StepDeTokens \/ StepClone \/ StepDrop \/ StepEq \/ StepAppend \/ StepIterCalls \/ StepBalance \/ StepOp)

Accepted == IF TLCGet("stats").diameter - 1 = Len(Rec) THEN PrintT(<<"CONSUMED", Len(Rec)>>)
            ELSE Print(<<"STUCK", TLCGet("stats").diameter, Rec[TLCGet("stats").diameter].op>>, FALSE)
=============================================================================
