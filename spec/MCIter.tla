------------------------------- MODULE MCIter -------------------------------
(***************************************************************************)
(* Iterator protocol model.  Enumerates EVERY call sequence up to Depth on *)
(* an iterator over N slots, runs an implementation-shaped cursor machine  *)
(* on it and checks the machine against the contract.  The contract side   *)
(* is the ghost range gf..gb-1 of slots still owed (the same forward       *)
(* accounting as IterProto!RemSeq / PosWalk):                              *)
(*   NoDup      no slot is yielded twice                                   *)
(*   NoPanic    no call panics (cursor arithmetic is checked arithmetic)   *)
(*   LenExact   every reported len / size_hint / count is the number owed  *)
(*   Fused      after None, None                                           *)
(*   PosExact   every call yields exactly the slot the contract dictates:  *)
(*              next the first owed, next_back / last the last owed,       *)
(*              nth(k) / nth_back(k) the k-th from their end; fold / rfold *)
(*              everything owed, front to back / back to front             *)
(* Call alphabet (a call is a pair <<code, k>>):                           *)
(*   base  0 next, 1 next_back, 2 len, 3 size_hint                         *)
(*   Ext   + 4 nth(k), 5 nth_back(k) for k in 0..2, and the consuming      *)
(*         calls 6 last, 7 count, 8 fold, 9 rfold, which end a sequence    *)
(* Machines (Impl):                                                        *)
(*  "single"  double_priority_queue::iterators::IterMut as of 2.3.1: ONE   *)
(*            cursor `pos` used by next (pos += 1) and next_back           *)
(*            (pos -= 1), len() = queue length, size_hint = default        *)
(*            (base alphabet only: a record of defect D3)                  *)
(*  "pair"    front/back cursors (IndexMap's own iterators, which Iter,    *)
(*            IntoIter and Drain delegate to; and IterMut after the fix);  *)
(*            nth / nth_back move a cursor by k+1 and exhaust the range    *)
(*            when it is too short; last = next_back; count = back-front   *)
(*  "fwd"     priority_queue::iterators::IterMut: forward only, no len;    *)
(*            nth / last / count / fold are std's defaults (repeated next) *)
(* Every explored call sequence is emitted (CALLS lines) and replayed on   *)
(* the real iterators, whose recorded results TLC validates (IterProto).   *)
(***************************************************************************)
EXTENDS Integers, Sequences, FiniteSets, TLC, Json

CONSTANTS N, Depth, Impl, Emit, Ext
VARIABLES calls, front, back, yielded, out, reports, sawNone, lateYield, gf, gb, mispos, ended

vars == <<calls, front, back, yielded, out, reports, sawNone, lateYield, gf, gb, mispos, ended>>
Init == calls = <<>> /\ front = 0 /\ back = N /\ yielded = <<>> /\ out = "ok" /\ reports = <<>>
        /\ sawNone = FALSE /\ lateYield = FALSE /\ gf = 0 /\ gb = N /\ mispos = FALSE /\ ended = FALSE

Ks == 0..2
BaseAlphabet == IF Impl = "fwd" THEN {<<0, 0>>, <<3, 0>>} ELSE {<<0, 0>>, <<1, 0>>, <<2, 0>>, <<3, 0>>}
ExtAlphabet  == IF Impl = "single" THEN {}
                ELSE IF Impl = "fwd" THEN {<<4, k>> : k \in Ks} \cup {<<6, 0>>, <<7, 0>>, <<8, 0>>}
                ELSE {<<4, k>> : k \in Ks} \cup {<<5, k>> : k \in Ks} \cup {<<6, 0>>, <<7, 0>>, <<8, 0>>, <<9, 0>>}
Alphabet == BaseAlphabet \cup (IF Ext THEN ExtAlphabet ELSE {})

Owed == gb - gf
Range(a, b) == [i \in 1..(IF b > a THEN b - a ELSE 0) |-> a + i - 1]      \* a, a+1, .., b-1
RevRange(a, b) == [i \in 1..(IF b > a THEN b - a ELSE 0) |-> b - i]     \* b-1, .., a

\* ---------------------------------------------------------------- the contract (ghost range gf..gb-1)
WantYield(c, k) ==
  CASE c = 0 -> IF gf < gb THEN <<gf>> ELSE <<>>
    [] c = 1 -> IF gf < gb THEN <<gb - 1>> ELSE <<>>
    [] c = 4 -> IF gf + k < gb THEN <<gf + k>> ELSE <<>>
    [] c = 5 -> IF gb - k > gf THEN <<gb - k - 1>> ELSE <<>>
    [] c = 6 -> IF gf < gb THEN <<gb - 1>> ELSE <<>>
    [] c = 8 -> Range(gf, gb)
    [] c = 9 -> RevRange(gf, gb)
    [] OTHER -> <<>>
GhostFront(c, k) ==
  CASE c = 0 -> IF gf < gb THEN gf + 1 ELSE gf
    [] c = 4 -> IF gf + k < gb THEN gf + k + 1 ELSE gb
    [] c \in {6, 7, 8, 9} -> gb
    [] OTHER -> gf
GhostBack(c, k) ==
  CASE c = 1 -> IF gf < gb THEN gb - 1 ELSE gb
    [] c = 5 -> IF gb - k > gf THEN gb - k - 1 ELSE gf
    [] OTHER -> gb

\* ---------------------------------------------------------------- the machines
\* the slot yielded by a call, <<>> for None
FrontYield == CASE Impl = "single" -> IF front < N THEN <<front>> ELSE <<>>
                [] OTHER           -> IF front < back THEN <<front>> ELSE <<>>
BackYield  == CASE Impl = "single" -> IF front < N THEN <<front>> ELSE <<>>      \* uses the SAME cursor
                [] OTHER           -> IF front < back THEN <<back - 1>> ELSE <<>>
LenReport  == CASE Impl = "single" -> N                                          \* pq.len()
                [] OTHER           -> back - front
HintReport == CASE Impl = "single" -> <<0, -1>>                                  \* default size_hint
                [] Impl = "fwd"    -> <<0, -1>>
                [] OTHER           -> <<back - front, back - front>>
\* (machines "pair" and "fwd" only)
MachYield(c, k) ==
  CASE c = 0 -> FrontYield
    [] c = 1 -> BackYield
    [] c = 4 -> IF front + k < back THEN <<front + k>> ELSE <<>>
    [] c = 5 -> IF back - k > front THEN <<back - k - 1>> ELSE <<>>
    [] c = 6 -> IF front < back THEN <<back - 1>> ELSE <<>>
    [] c = 8 -> Range(front, back)
    [] c = 9 -> RevRange(front, back)
    [] OTHER -> <<>>
MachFront(c, k) ==
  CASE c = 0 -> IF front < back THEN front + 1 ELSE front
    [] c = 4 -> IF front + k < back THEN front + k + 1 ELSE back
    [] c \in {6, 7, 8, 9} -> back
    [] OTHER -> front
MachBack(c, k) ==
  CASE c = 1 -> IF front < back THEN back - 1 ELSE back
    [] c = 5 -> IF back - k > front THEN back - k - 1 ELSE front
    [] OTHER -> back

Call(ck) ==
  LET c == ck[1]  k == ck[2] IN
  /\ out = "ok" /\ ~ended /\ Len(calls) < Depth /\ ck \in Alphabet
  /\ calls' = Append(calls, ck)
  /\ ended' = (c \in {6, 7, 8, 9})
  /\ gf' = GhostFront(c, k) /\ gb' = GhostBack(c, k)
  /\ IF Impl = "single"
     THEN CASE c = 0 -> /\ yielded' = yielded \o FrontYield
                        /\ front' = front + 1
                        /\ mispos' = (mispos \/ FrontYield # WantYield(c, k))
                        /\ lateYield' = (lateYield \/ (sawNone /\ FrontYield # <<>>))
                        /\ sawNone' = (sawNone \/ FrontYield = <<>>)
                        /\ UNCHANGED <<back, out, reports>>
            [] c = 1 -> /\ yielded' = yielded \o BackYield
                        /\ mispos' = (mispos \/ BackYield # WantYield(c, k))
                        /\ lateYield' = (lateYield \/ (sawNone /\ BackYield # <<>>))
                        /\ sawNone' = (sawNone \/ BackYield = <<>>)
                        /\ IF front = 0 THEN out' = "panic" /\ UNCHANGED <<front, back>>    \* pos -= 1 overflows
                           ELSE front' = front - 1 /\ UNCHANGED <<back, out>>
                        /\ UNCHANGED reports
            [] c = 2 -> /\ reports' = Append(reports, <<LenReport, LenReport, Owed>>)
                        /\ UNCHANGED <<front, back, yielded, out, sawNone, lateYield, mispos>>
            [] c = 3 -> /\ reports' = Append(reports, <<HintReport[1], HintReport[2], Owed>>)
                        /\ UNCHANGED <<front, back, yielded, out, sawNone, lateYield, mispos>>
     ELSE /\ yielded' = yielded \o MachYield(c, k)
          /\ front' = MachFront(c, k) /\ back' = MachBack(c, k)
          /\ mispos' = (mispos \/ (c \notin {2, 3, 7} /\ MachYield(c, k) # WantYield(c, k)))
          /\ lateYield' = (lateYield \/ (sawNone /\ MachYield(c, k) # <<>>))
          /\ sawNone' = (sawNone \/ (c \in {0, 1} /\ MachYield(c, k) = <<>>))
          /\ reports' = CASE c = 2 -> Append(reports, <<LenReport, LenReport, Owed>>)
                          [] c = 3 -> Append(reports, <<HintReport[1], HintReport[2], Owed>>)
                          [] c = 7 -> Append(reports, <<back - front, back - front, Owed>>)
                          [] OTHER -> reports
          /\ out' = out

Next == \E ck \in Alphabet : Call(ck)

\* ------------------------------------------------------------------ the contract
NoDup    == \A i, j \in 1..Len(yielded) : i # j => yielded[i] # yielded[j]
NoPanic  == out = "ok"
Fused    == ~lateYield
PosExact == ~mispos
\* lower bound <= owed <= upper bound; equality when an exact size is declared (Impl # "fwd") and for count
LenExact == \A i \in 1..Len(reports) :
              IF Impl = "fwd" /\ reports[i][2] = -1 THEN reports[i][1] <= reports[i][3]
              ELSE reports[i][1] = reports[i][3] /\ reports[i][2] = reports[i][3]
InRange  == \A i \in 1..Len(yielded) : yielded[i] \in 0..(N-1)

\* base sequences are emitted as plain codes, extended ones as [code, k] pairs
Emitted == IF Ext THEN calls ELSE [i \in 1..Len(calls) |-> calls[i][1]]
\* (an Ext run emits only the sequences that use an extended call: the others come from the base run)
EmitInv == (Emit /\ (Len(calls) = Depth \/ out # "ok" \/ ended) /\ (~Ext \/ \E i \in 1..Len(calls) : calls[i][1] >= 4)) => PrintT(<<"CALLS", ToJson([n |-> N, calls |-> Emitted])>>)
=============================================================================
