------------------------------- MODULE MCIter -------------------------------
(***************************************************************************)
(* Iterator protocol model.  Enumerates EVERY call sequence over           *)
(* {next, next_back, len, size_hint} up to Depth on an iterator over N     *)
(* slots, runs an implementation-shaped cursor machine on it and checks    *)
(* the machine against the contract:                                       *)
(*   NoDup      no slot is yielded twice                                   *)
(*   NoPanic    no call panics (cursor arithmetic is checked arithmetic)   *)
(*   LenExact   every reported len / size_hint is the number still to come *)
(*   Fused      after None, None                                           *)
(* Machines (Impl):                                                        *)
(*  "single"  double_priority_queue::iterators::IterMut as of 2.3.1: ONE   *)
(*            cursor `pos` used by next (pos += 1) and next_back           *)
(*            (pos -= 1), len() = queue length, size_hint = default        *)
(*  "pair"    front/back cursors (IndexMap's own iterators, which Iter,    *)
(*            IntoIter and Drain delegate to; and IterMut after the fix)   *)
(*  "fwd"     priority_queue::iterators::IterMut: forward only, no len     *)
(* Every explored call sequence is emitted (CALLS lines) and replayed on   *)
(* the real iterators, whose recorded results TLC validates (IterProto).   *)
(***************************************************************************)
EXTENDS Integers, Sequences, FiniteSets, TLC, Json

CONSTANTS N, Depth, Impl, Emit
VARIABLES calls, front, back, yielded, out, reports, sawNone, lateYield

vars == <<calls, front, back, yielded, out, reports, sawNone, lateYield>>
Init == calls = <<>> /\ front = 0 /\ back = N /\ yielded = <<>> /\ out = "ok" /\ reports = <<>>
        /\ sawNone = FALSE /\ lateYield = FALSE

Alphabet == IF Impl = "fwd" THEN {0, 3} ELSE {0, 1, 2, 3}

\* the slot yielded by a call, <<>> for None
FrontYield == CASE Impl = "single" -> IF front < N THEN <<front>> ELSE <<>>
                [] OTHER           -> IF front < back THEN <<front>> ELSE <<>>
BackYield  == CASE Impl = "single" -> IF front < N THEN <<front>> ELSE <<>>      \* uses the SAME cursor
                [] OTHER           -> IF front < back THEN <<back - 1>> ELSE <<>>
RemainingTrue == N - Len(yielded)
LenReport  == CASE Impl = "single" -> N                                          \* pq.len()
                [] OTHER           -> back - front
HintReport == CASE Impl = "single" -> <<0, -1>>                                  \* default size_hint
                [] Impl = "fwd"    -> <<0, -1>>
                [] OTHER           -> <<back - front, back - front>>

Call(c) ==
  /\ out = "ok" /\ Len(calls) < Depth /\ c \in Alphabet
  /\ calls' = Append(calls, c)
  /\ CASE c = 0 -> /\ yielded' = yielded \o FrontYield
                   /\ front' = IF Impl = "single" \/ front < back THEN front + 1 ELSE front
                   /\ lateYield' = (lateYield \/ (sawNone /\ FrontYield # <<>>))
                   /\ sawNone' = (sawNone \/ FrontYield = <<>>)
                   /\ UNCHANGED <<back, out, reports>>
       [] c = 1 -> /\ yielded' = yielded \o BackYield
                   /\ lateYield' = (lateYield \/ (sawNone /\ BackYield # <<>>))
                   /\ sawNone' = (sawNone \/ BackYield = <<>>)
                   /\ IF Impl = "single"
                      THEN IF front = 0 THEN out' = "panic" /\ UNCHANGED <<front, back>>    \* pos -= 1 overflows
                           ELSE front' = front - 1 /\ UNCHANGED <<back, out>>
                      ELSE /\ back' = IF front < back THEN back - 1 ELSE back
                           /\ UNCHANGED <<front, out>>
                   /\ UNCHANGED reports
       [] c = 2 -> /\ reports' = Append(reports, <<LenReport, LenReport, RemainingTrue>>)
                   /\ UNCHANGED <<front, back, yielded, out, sawNone, lateYield>>
       [] c = 3 -> /\ reports' = Append(reports, <<HintReport[1], HintReport[2], RemainingTrue>>)
                   /\ UNCHANGED <<front, back, yielded, out, sawNone, lateYield>>

Next == \E c \in 0..3 : Call(c)

\* ------------------------------------------------------------------ the contract
NoDup    == \A i, j \in 1..Len(yielded) : i # j => yielded[i] # yielded[j]
NoPanic  == out = "ok"
Fused    == ~lateYield
\* lower bound <= remaining <= upper bound; equality when an exact size is declared (Impl # "fwd")
LenExact == \A i \in 1..Len(reports) :
              IF Impl = "fwd" THEN reports[i][1] <= reports[i][3] /\ (reports[i][2] = -1 \/ reports[i][3] <= reports[i][2])
              ELSE reports[i][1] = reports[i][3] /\ reports[i][2] = reports[i][3]
InRange  == \A i \in 1..Len(yielded) : yielded[i] \in 0..(N-1)

EmitInv == (Emit /\ (Len(calls) = Depth \/ out # "ok")) => PrintT(<<"CALLS", ToJson([n |-> N, calls |-> calls])>>)
=============================================================================
