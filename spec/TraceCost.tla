----------------------------- MODULE TraceCost -----------------------------
(***************************************************************************)
(* Trace specification for the cost traces (property C05): every recorded  *)
(* call of the real code must stay within Cost!Bound for the size it       *)
(* worked on.  The events carry no snapshot: [op, kind, n0, len, cmps].    *)
(* Total, like TraceQueue: a failed bound prints a FAIL line and the       *)
(* validation goes on.                                                     *)
(***************************************************************************)
EXTENDS Cost, Sequences, TLC, Json, IOUtils

Rec == ndJsonDeserialize(IOEnv.TRACE)
VARIABLES l
e == Rec[l]
Max2(a, b) == IF a > b THEN a ELSE b
N0 == IF "n0" \in DOMAIN e THEN e.n0 ELSE 0          \* absent when the call creates the queue
Size == IF "m" \in DOMAIN e THEN Max2(Max2(N0, e.len), e.m) ELSE Max2(N0, e.len)
Init == l = 1
Next == /\ l <= Len(Rec) /\ l' = l + 1
        /\ IF e.op \in {"reset", "drop", "clone", "new"} \/ e.panic = 1 \/ "len" \notin DOMAIN e THEN TRUE
           ELSE IF Within(e.kind, e.op, Size, e.cmps) THEN TRUE
           ELSE PrintT(<<"FAIL", l, e.op, e.kind, {"cost"}>>) /\ PrintT(<<"NOTE", "cost", e.op, e.kind, Size, e.cmps, Bound(e.kind, e.op, Size)>>)
Accepted == IF TLCGet("stats").diameter - 1 = Len(Rec) THEN PrintT(<<"CONSUMED", Len(Rec)>>)
            ELSE Print(<<"STUCK", TLCGet("stats").diameter>>, FALSE)
=============================================================================
