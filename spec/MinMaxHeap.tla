---------------------------- MODULE MinMaxHeap ----------------------------
(***************************************************************************)
(* Implementation-shaped transcription of src/double_priority_queue/mod.rs *)
(* (DoublePriorityQueue: min-max heap over the Store; even levels are min  *)
(* levels, odd levels max levels).  See Store.tla for conventions.         *)
(***************************************************************************)
EXTENDS Store

Level(i)    == Log2(i + 1)
MinLevel(i) == Level(i) % 2 = 0
\* "a should be nearer to the root than b" on a min (resp. max) level
Better(a, b, isMin) == IF isMin THEN a < b ELSE a > b

\* ------------------------------------------------------------------ heapify_min / heapify_max
\* candidates [l, r, ll, lr, rl, rr] cut at the first position outside the heap VECTOR (map_while
\* over heap.get), then Iterator::min_by_key (FIRST minimum) resp. max_by_key (LAST maximum)
Cands(s, i) == LET all == <<2*i+1, 2*i+2, 4*i+3, 4*i+4, 4*i+5, 4*i+6>>
                   ok  == {k \in 1..6 : \A j \in 1..k : all[j] < Len(s.heap)}
               IN SubSeq(all, 1, Cardinality(ok))
FirstMin(s, c) == LET k == CHOOSE k \in 1..Len(c) :
                        /\ \A j \in 1..Len(c) : PrioAt(s, c[k]) <= PrioAt(s, c[j])
                        /\ \A j \in 1..(k-1)  : PrioAt(s, c[j]) >  PrioAt(s, c[k]) IN c[k]
LastMax(s, c)  == LET k == CHOOSE k \in 1..Len(c) :
                        /\ \A j \in 1..Len(c) : PrioAt(s, c[k]) >= PrioAt(s, c[j])
                        /\ \A j \in (k+1)..Len(c) : PrioAt(s, c[j]) < PrioAt(s, c[k]) IN c[k]

RECURSIVE DqTrickle(_,_,_,_)
DqTrickle(s, m, isMin, f) ==
  IF m > Par(s.size - 1) THEN Ok(s, f, <<>>) ELSE
  LET c == Cands(s, m) IN
  IF c = <<>> THEN Panic(s, f) ELSE                                          \* .unwrap() of None
  IF \E j \in 1..Len(c) : ~In(s.pri, At(s.heap, c[j])) THEN Panic(s, f) ELSE \* get_index(..).unwrap()
  IF f.cmp < Len(c) - 1 THEN Panic(s, [f EXCEPT !.cmp = 0]) ELSE
  LET f1 == [f EXCEPT !.cmp = @ - (Len(c) - 1)]
      i  == IF isMin THEN FirstMin(s, c) ELSE LastMax(s, c) IN
  IF PrioOut(s, m) # "ok" THEN R(s, PrioOut(s, m), f1, <<>>) ELSE
  IF f1.cmp = 0 THEN Panic(s, f1) ELSE
  LET f2 == TickCmp(f1) IN
  IF ~Better(PrioAt(s, i), PrioAt(s, m), isMin) THEN Ok(s, f2, <<>>) ELSE
  Then(Swap(s, i, m, f2), LAMBDA x :
    IF i <= 2*m + 2 THEN x ELSE                                               \* child: break
    LET p == Par(i) IN                                                        \* grandchild
    IF PrioOut(x.st, i) # "ok" THEN R(x.st, PrioOut(x.st, i), x.fuel, <<>>) ELSE
    IF PrioOut(x.st, p) # "ok" THEN R(x.st, PrioOut(x.st, p), x.fuel, <<>>) ELSE
    IF x.fuel.cmp = 0 THEN Panic(x.st, x.fuel) ELSE
    LET f3 == TickCmp(x.fuel) IN
    IF Better(PrioAt(x.st, p), PrioAt(x.st, i), isMin)
    THEN Then(Swap(x.st, i, p, f3), LAMBDA y : DqTrickle(y.st, i, isMin, y.fuel))
    ELSE DqTrickle(x.st, i, isMin, f3))

DqHeapify(s, i, f) ==
  IF s.size <= 1 THEN Ok(s, f, <<>>) ELSE DqTrickle(s, i, MinLevel(i), f)

\* ------------------------------------------------------------------ bubble_up_min / bubble_up_max
HasGP(pos) == pos > 0 /\ Par(pos) > 0
RECURSIVE DqBubbleLoop(_,_,_,_,_)
DqBubbleLoop(s, pos, idx, isMin, f) ==          \* ret = <<position>>; does NOT write idx
  IF ~HasGP(pos) THEN Ok(s, f, <<pos>>) ELSE
  LET gp == Par(Par(pos)) IN
  IF PrioOut(s, gp) # "ok" THEN R(s, PrioOut(s, gp), f, <<>>) ELSE
  IF f.cmp = 0 THEN Panic(s, f) ELSE
  LET f1 == TickCmp(f) IN
  IF Better(At(s.pri, idx), PrioAt(s, gp), isMin)
  THEN LET gi == At(s.heap, gp) IN
       IF ~In(s.heap, pos) \/ ~In(s.qp, gi) THEN UB(s, f1)
       ELSE IF ~SwapBubble
            THEN DqBubbleLoop([s EXCEPT !.heap = Put(@, pos, gi), !.qp = Put(@, gi, pos)], gp, idx, isMin, f1)
            ELSE IF ~In(s.qp, idx) THEN UB([s EXCEPT !.heap = Put(@, pos, gi), !.qp = Put(@, gi, pos)], f1)
            ELSE DqBubbleLoop([s EXCEPT !.heap = Put(Put(@, pos, gi), gp, idx),
                                        !.qp = Put(Put(@, gi, pos), idx, gp)], gp, idx, isMin, f1)
  ELSE Ok(s, f1, <<pos>>)
DqBubbleDir(s, pos, idx, isMin, f) ==
  IF ~In(s.pri, idx) THEN Panic(s, f) ELSE DqBubbleLoop(s, pos, idx, isMin, f)

\* ------------------------------------------------------------------ bubble_up (4-way dispatch)
DqBubbleUp(s, pos, idx, f) ==
  IF ~In(s.pri, idx) THEN Panic(s, f) ELSE
  LET final(r) == IF r.out # "ok" THEN r ELSE
                  LET q == r.ret[1] IN
                  IF ~In(r.st.heap, q) \/ ~In(r.st.qp, idx) THEN UB(r.st, r.fuel)
                  ELSE Ok([r.st EXCEPT !.heap = Put(@, q, idx), !.qp = Put(@, idx, q)], r.fuel, <<q>>) IN
  IF pos = 0 THEN final(Ok(s, f, <<0>>)) ELSE
  LET par == Par(pos) IN
  IF PrioOut(s, par) # "ok" THEN R(s, PrioOut(s, par), f, <<>>) ELSE
  IF f.cmp = 0 THEN Panic(s, f) ELSE
  LET f1   == TickCmp(f)
      pi   == At(s.heap, par)
      less == PrioAt(s, par) < At(s.pri, idx)
      mvOK == In(s.heap, pos) /\ In(s.qp, pi) /\ (~SwapBubble \/ In(s.qp, idx))
      moved == IF SwapBubble
               THEN [s EXCEPT !.heap = Put(Put(@, pos, pi), par, idx), !.qp = Put(Put(@, pi, pos), idx, par)]
               ELSE [s EXCEPT !.heap = Put(@, pos, pi), !.qp = Put(@, pi, pos)] IN
  IF MinLevel(pos)
  THEN IF less THEN (IF ~mvOK THEN UB(s, f1) ELSE final(DqBubbleDir(moved, par, idx, FALSE, f1)))
               ELSE final(DqBubbleDir(s, pos, idx, TRUE, f1))
  ELSE IF less THEN final(DqBubbleDir(s, pos, idx, FALSE, f1))
               ELSE (IF ~mvOK THEN UB(s, f1) ELSE final(DqBubbleDir(moved, par, idx, TRUE, f1)))

\* ------------------------------------------------------------------ up_heapify
DqUpHeapify(s, i, f) ==
  IF ~In(s.heap, i) THEN Ok(s, f, <<>>) ELSE                                  \* heap.get(i) is checked
  Then(DqBubbleUp(s, i, At(s.heap, i), f), LAMBDA x :
       LET pos == x.ret[1] IN
       IF i # pos THEN Then(DqHeapify(x.st, i, x.fuel), LAMBDA y : DqHeapify(y.st, pos, y.fuel))
       ELSE DqHeapify(x.st, pos, x.fuel))

\* ------------------------------------------------------------------ heap_build
RECURSIVE DqBuildFrom(_,_,_)
DqBuildFrom(s, i, f) ==
  Then(DqHeapify(s, i, f), LAMBDA x : IF i = 0 THEN x ELSE DqBuildFrom(x.st, i-1, x.fuel))
DqHeapBuild(s, f) == IF s.size = 0 THEN Ok(s, f, <<>>) ELSE DqBuildFrom(s, Par(s.size), f)

\* ------------------------------------------------------------------ find_max
\* ret = <<>> | <<pos>>; one comparison when len >= 3 (max_by_key over [1, 2]: LAST maximum)
DqFindMax(s, f) ==
  IF s.size = 0 THEN Ok(s, f, <<>>) ELSE
  IF s.size = 1 THEN Ok(s, f, <<0>>) ELSE
  IF s.size = 2 THEN Ok(s, f, <<1>>) ELSE
  IF PrioOut(s, 1) # "ok" THEN R(s, PrioOut(s, 1), f, <<>>) ELSE
  IF PrioOut(s, 2) # "ok" THEN R(s, PrioOut(s, 2), f, <<>>) ELSE
  IF f.cmp = 0 THEN Panic(s, f) ELSE
  Ok(s, TickCmp(f), IF PrioAt(s, 2) >= PrioAt(s, 1) THEN <<2>> ELSE <<1>>)

\* ================================================================== public operations
DqPush(s, k, p, f) ==
  IF f.look = 0 THEN Panic(s, f) ELSE
  LET f1 == TickLook(f) IN
  IF Has(s, k)
  THEN LET i  == IdxOf(s, k)
           s1 == [s EXCEPT !.pri = Put(@, i, p)] IN
       IF ~In(s.qp, i) THEN UB(s1, f1)
       ELSE SetRet(DqUpHeapify(s1, At(s.qp, i), f1), <<At(s.pri, i)>>)
  ELSE LET i  == s.size
           s1 == [s EXCEPT !.keys = Append(@, k), !.pri = Append(@, p),
                           !.qp = Append(@, i), !.heap = Append(@, i)] IN
       IF SwapBubble
       THEN SetRet(DqBubbleUp([s1 EXCEPT !.size = @ + 1], i, i, f1), <<>>)
       ELSE Then(DqBubbleUp(s1, i, i, f1),
                 LAMBDA x : Ok([x.st EXCEPT !.size = @ + 1], x.fuel, <<>>))

DqPushDir(s, k, p, up, f) ==
  IF f.look = 0 THEN Panic(s, f) ELSE
  LET f1 == TickLook(f) IN
  IF ~Has(s, k) THEN DqPush(s, k, p, f1) ELSE
  IF f1.cmp = 0 THEN Panic(s, f1) ELSE
  LET f2  == TickCmp(f1)
      cur == At(s.pri, IdxOf(s, k)) IN
  IF (up /\ p > cur) \/ (~up /\ p < cur) THEN DqPush(s, k, p, f2)
  ELSE Ok(s, f2, <<p, 0>>)
DqPushIncrease(s, k, p, f) == DqPushDir(s, k, p, TRUE, f)
DqPushDecrease(s, k, p, f) == DqPushDir(s, k, p, FALSE, f)

DqChangePriority(s, k, p, f) ==
  Then(ChangePriority(s, k, p, f), LAMBDA x :
       IF x.ret = <<>> THEN x
       ELSE SetRet(DqUpHeapify(x.st, x.ret[2], x.fuel), <<x.ret[1]>>))
DqChangePriorityBy(s, k, newp, f) ==
  Then(ChangePriorityBy(s, k, newp, f), LAMBDA x :
       IF x.ret = <<>> THEN SetRet(x, <<FALSE>>)
       ELSE SetRet(DqUpHeapify(x.st, x.ret[1], x.fuel), <<TRUE>>))

DqRemove(s, k, f) ==
  Then(StoreRemove(s, k, f), LAMBDA x :
       IF x.ret = <<>> THEN x
       ELSE LET pos == x.ret[3]  out == << <<x.ret[1], x.ret[2]>> >> IN
            IF pos < x.st.size THEN SetRet(DqUpHeapify(x.st, pos, x.fuel), out)
            ELSE SetRet(x, out))

DqPopMin(s, f) ==
  IF s.size = 0 THEN Ok(s, f, <<>>) ELSE
  Then(SwapRemove(s, 0, f), LAMBDA x : SetRet(DqHeapify(x.st, 0, x.fuel), x.ret))
DqPopMax(s, f) ==
  Then(DqFindMax(s, f), LAMBDA m :
       IF m.ret = <<>> THEN m ELSE
       Then(SwapRemove(s, m.ret[1], m.fuel), LAMBDA x : SetRet(DqHeapify(x.st, m.ret[1], x.fuel), x.ret)))

DqPopMinIf(s, newp, yes, f) ==
  IF s.size = 0 THEN Ok(s, f, <<>>) ELSE
  Then(SwapRemoveIf(s, 0, newp, yes, f), LAMBDA x : SetRet(DqHeapify(x.st, 0, x.fuel), x.ret))
DqPopMaxIf(s, newp, yes, f) ==
  Then(DqFindMax(s, f), LAMBDA m :
       IF m.ret = <<>> THEN m ELSE
       Then(SwapRemoveIf(s, m.ret[1], newp, yes, m.fuel),
            LAMBDA x : SetRet(DqUpHeapify(x.st, m.ret[1], x.fuel), x.ret)))

\* peek_min / peek_max: ret = <<>> | << <<key, pri>> >>; out may be "ub" (heap.get_unchecked)
DqPeekAt(s, pos, f) ==
  IF ~In(s.heap, pos) THEN UB(s, f) ELSE
  IF ~In(s.keys, At(s.heap, pos)) THEN Ok(s, f, <<>>)
  ELSE Ok(s, f, << <<At(s.keys, At(s.heap, pos)), At(s.pri, At(s.heap, pos))>> >>)
DqPeekMin(s, f) == IF s.size = 0 THEN Ok(s, f, <<>>) ELSE DqPeekAt(s, 0, f)
DqPeekMax(s, f) == Then(DqFindMax(s, f), LAMBDA m :
                        IF m.ret = <<>> THEN m ELSE DqPeekAt(s, m.ret[1], m.fuel))

DqRetain(s, keep, wr, f) ==
  Then(StoreRetain(s, keep, wr, f), LAMBDA x : DqHeapBuild(x.st, x.fuel))

DqIterMut(s, wr, forget, f) ==
  LET s1 == [s EXCEPT !.pri = [i \in 1..Len(s.pri) |-> IF (i-1) \in DOMAIN wr THEN wr[i-1] ELSE s.pri[i]]] IN
  IF forget THEN Ok(s1, f, <<>>) ELSE DqHeapBuild(s1, f)

DqAppend(a, b, f) ==
  Then(StoreAppend(a, b, f), LAMBDA x :
       LET h == DqHeapBuild(x.st.a, x.fuel) IN [h EXCEPT !.st = [a |-> h.st, b |-> x.st.b]])

DqFromVec(pairs, f)  == Then(StoreFromVec(pairs, f),  LAMBDA x : DqHeapBuild(x.st, x.fuel))
DqFromIter(pairs, f) == Then(StoreFromIter(pairs, f), LAMBDA x : DqHeapBuild(x.st, x.fuel))
DqFromStore(s, f)    == DqHeapBuild(s, f)
DqDeserialize(pairs, f) == Then(StoreDeserialize(pairs, f), LAMBDA x : DqHeapBuild(x.st, x.fuel))

RECURSIVE DqPushAll(_,_,_)
DqPushAll(s, pairs, f) ==
  IF pairs = <<>> THEN (IF f.cb = 0 THEN Panic(s, f) ELSE Ok(s, TickCb(f), <<>>)) ELSE
  IF f.cb = 0 THEN Panic(s, f) ELSE
  Then(DqPush(s, pairs[1][1], pairs[1][2], TickCb(f)), LAMBDA x : DqPushAll(x.st, Tail(pairs), x.fuel))
DqExtend(s, pairs, rebuild, f) ==
  IF rebuild THEN Then(StoreExtend(s, pairs, f), LAMBDA x : DqHeapBuild(x.st, x.fuel))
  ELSE DqPushAll(s, pairs, f)

\* sorted consumption: ends is a sequence of "min"/"max" choices (next / next_back)
RECURSIVE DqDrainSorted(_,_,_,_)
DqDrainSorted(s, fromMax, acc, f) ==
  IF s.size = 0 THEN Ok(s, f, acc) ELSE
  Then(IF fromMax THEN DqPopMax(s, f) ELSE DqPopMin(s, f), LAMBDA x :
       IF x.ret = <<>> THEN Ok(x.st, x.fuel, acc)
       ELSE DqDrainSorted(x.st, fromMax, Append(acc, x.ret[1]), x.fuel))

\* ------------------------------------------------------------------ order invariant
RECURSIVE IsAnc(_,_)
IsAnc(a, d) == d > a /\ (Par(d) = a \/ IsAnc(a, Par(d)))
DqOrd(s) == \A a, d \in 0..(s.size-1) : IsAnc(a, d) =>
              IF MinLevel(a) THEN PrioAt(s, a) <= PrioAt(s, d) ELSE PrioAt(s, a) >= PrioAt(s, d)
=============================================================================
