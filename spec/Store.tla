------------------------------- MODULE Store -------------------------------
(***************************************************************************)
(* Implementation-shaped transcription of src/store.rs.                    *)
(*                                                                         *)
(* A store is the record                                                   *)
(*    [keys, pri, heap, qp, size]                                          *)
(* keys/pri : the IndexMap at its API level: slot index -> key / priority  *)
(*            (insertion order, swap_remove semantics)                     *)
(* heap     : heap position -> slot index      (Vec<Index>)                *)
(* qp       : slot index    -> heap position   (Vec<Position>)             *)
(* size     : the size counter                                             *)
(*                                                                         *)
(* Rust indices are 0-based, TLA+ sequences 1-based: At(s, i) == s[i+1].   *)
(*                                                                         *)
(* Every operator that mirrors a Rust function returns an OUTCOME record   *)
(*    [st, out, fuel, ret]                                                 *)
(* out \in {"ok", "panic", "ub"}:                                          *)
(*    "panic" - a checked access / unwrap / user callback unwound here;    *)
(*              st is the store exactly as the code leaves it at that point*)
(*    "ub"    - an UNCHECKED access (get_unchecked..) was out of bounds    *)
(* fuel is a record of countdowns [cmp, look, cb]: cmp is decremented at   *)
(* every call of Ord::cmp, look at every hash-map lookup (Hash/Eq), cb at  *)
(* every call of a user closure.  Reaching 0 at a call means: that call    *)
(* panics.  With fuel = Inf the same text gives the fault-free semantics   *)
(* and Inf.cmp - fuel.cmp is the number of comparisons (Cost.tla).         *)
(***************************************************************************)
EXTENDS Integers, Sequences, FiniteSets, TLC, IOUtils

Empty == [keys |-> <<>>, pri |-> <<>>, heap |-> <<>>, qp |-> <<>>, size |-> 0]

\* Panic safety of the sift-up (defect D5, fixed in /repo): bubble_up now completes the swap at every
\* level (the tables are mutually inverse at every comparison) and push bumps `size` before sifting.
\* Setting the environment variable OLDBUBBLE re-creates the 2.3.1 behaviour (moving hole, size bumped
\* last) - used only to show that MCFault finds the undefined behaviour it led to.
SwapBubble == "OLDBUBBLE" \notin DOMAIN IOEnv

INF == 1000000
Inf == [cmp |-> INF, look |-> INF, cb |-> INF]
TickCmp(f)  == [f EXCEPT !.cmp = @ - 1]
TickLook(f) == [f EXCEPT !.look = @ - 1]
TickCb(f)   == [f EXCEPT !.cb = @ - 1]

R(s, o, f, ret) == [st |-> s, out |-> o, fuel |-> f, ret |-> ret]
Ok(s, f, ret)   == R(s, "ok", f, ret)
Panic(s, f)     == R(s, "panic", f, <<>>)
UB(s, f)        == R(s, "ub", f, <<>>)
Then(r, F(_))   == IF r.out = "ok" THEN F(r) ELSE r
SetRet(r, v)    == IF r.out = "ok" THEN [r EXCEPT !.ret = v] ELSE r

In(s, i)     == i >= 0 /\ i < Len(s)
At(s, i)     == s[i+1]
Put(s, i, v) == [s EXCEPT ![i+1] = v]
\* Vec::swap_remove(i) (requires In(s, i))
VSR(s, i) == LET n == Len(s) IN [k \in 1..(n-1) |-> IF k = i+1 THEN s[n] ELSE s[k]]
Iota(n)   == [k \in 1..n |-> k-1]

Entries(s) == [i \in 1..Len(s.keys) |-> <<s.keys[i], s.pri[i]>>]
Has(s, k)   == \E i \in 1..Len(s.keys) : s.keys[i] = k
IdxOf(s, k) == (CHOOSE i \in 1..Len(s.keys) : s.keys[i] = k) - 1   \* first slot holding k
KeySet(s)   == {s.keys[i] : i \in 1..Len(s.keys)}

Par(i) == (i-1) \div 2
RECURSIVE Log2(_)
Log2(x) == IF x <= 1 THEN 0 ELSE 1 + Log2(x \div 2)

\* get_priority_from_position (store.rs:305): heap.get_unchecked(pos) then map.get_index(..).unwrap()
PrioOut(s, pos) == IF ~In(s.heap, pos) THEN "ub"
                   ELSE IF ~In(s.pri, At(s.heap, pos)) THEN "panic" ELSE "ok"
PrioAt(s, pos)  == At(s.pri, At(s.heap, pos))

\* ------------------------------------------------------------------ swap
\* store.rs:262  qp.swap(heap.get_unchecked(a), heap.get_unchecked(b)); heap.swap(a, b)
Swap(s, a, b, f) ==
  IF ~In(s.heap, a) \/ ~In(s.heap, b) THEN UB(s, f) ELSE
  LET ia == At(s.heap, a)  ib == At(s.heap, b) IN
  IF ~In(s.qp, ia) \/ ~In(s.qp, ib) THEN Panic(s, f) ELSE          \* slice::swap is checked
  Ok([s EXCEPT !.qp   = Put(Put(s.qp, ia, At(s.qp, ib)), ib, At(s.qp, ia)),
               !.heap = Put(Put(s.heap, a, ib), b, ia)], f, <<>>)

\* ------------------------------------------------------------------ swap_remove
\* store.rs:275.  ret = <<>> (None) or << <<key, pri>> >>
SwapRemove(s, pos, f) ==
  IF ~In(s.heap, pos) THEN Panic(s, f) ELSE                        \* Vec::swap_remove asserts
  LET head  == At(s.heap, pos)
      heap1 == VSR(s.heap, pos) IN
  IF s.size = 0 THEN Panic([s EXCEPT !.heap = heap1], f) ELSE      \* size -= 1 (overflow check)
  LET size1 == s.size - 1
      s1    == [s EXCEPT !.heap = heap1, !.size = size1] IN
  IF pos < size1 /\ (~In(heap1, pos) \/ ~In(s.qp, At(heap1, pos))) THEN UB(s1, f) ELSE
  LET qp1 == IF pos < size1 THEN Put(s.qp, At(heap1, pos), pos) ELSE s.qp IN
  IF ~In(qp1, head) THEN Panic([s1 EXCEPT !.qp = qp1], f) ELSE     \* qp.swap_remove asserts
  LET qp2 == VSR(qp1, head)
      s2  == [s1 EXCEPT !.qp = qp2] IN
  IF head < size1 /\ (~In(qp2, head) \/ ~In(heap1, At(qp2, head))) THEN UB(s2, f) ELSE
  LET heap2 == IF head < size1 THEN Put(heap1, At(qp2, head), head) ELSE heap1
      s3    == [s2 EXCEPT !.heap = heap2] IN
  IF ~In(s.keys, head) THEN Ok(s3, f, <<>>)                        \* map.swap_remove_index -> None
  ELSE Ok([s3 EXCEPT !.keys = VSR(s.keys, head), !.pri = VSR(s.pri, head)], f,
          << <<At(s.keys, head), At(s.pri, head)>> >>)

\* ------------------------------------------------------------------ swap_remove_if
\* store.rs:345.  The closure sees the element at `position`, may rewrite its priority
\* (newp = <<>>: untouched, <<p>>: set to p) and answers `yes`.
\* ret = <<>> or << <<key, pri>> >>;  extra field seen = the element shown to the closure.
SwapRemoveIf(s, pos, newp, yes, f) ==
  IF ~In(s.heap, pos) THEN UB(s, f) ELSE
  LET head == At(s.heap, pos) IN
  IF ~In(s.pri, head) THEN Panic(s, f) ELSE                        \* get_index_mut2(..).unwrap()
  IF f.cb = 0 THEN Panic(s, f) ELSE                                \* the closure unwinds
  LET f1 == TickCb(f)
      s1 == IF newp = <<>> THEN s ELSE [s EXCEPT !.pri = Put(@, head, newp[1])] IN
  IF yes THEN SwapRemove(s1, pos, f1) ELSE Ok(s1, f1, <<>>)

\* ------------------------------------------------------------------ change_priority(_by)
\* store.rs:367 / 383.  ret = <<>> or <<oldpri, pos>>
ChangePriority(s, k, p, f) ==
  IF f.look = 0 THEN Panic(s, f) ELSE
  LET f1 == TickLook(f) IN
  IF ~Has(s, k) THEN Ok(s, f1, <<>>) ELSE
  LET i == IdxOf(s, k) IN
  IF ~In(s.qp, i) THEN UB([s EXCEPT !.pri = Put(@, i, p)], f1)
  ELSE Ok([s EXCEPT !.pri = Put(@, i, p)], f1, <<At(s.pri, i), At(s.qp, i)>>)

\* the setter is a user closure: cb tick; newp = <<>> leaves the priority alone
ChangePriorityBy(s, k, newp, f) ==
  IF f.look = 0 THEN Panic(s, f) ELSE
  LET f1 == TickLook(f) IN
  IF ~Has(s, k) THEN Ok(s, f1, <<>>) ELSE
  LET i == IdxOf(s, k) IN
  IF f1.cb = 0 THEN Panic(s, f1) ELSE
  LET f2 == TickCb(f1)
      s1 == IF newp = <<>> THEN s ELSE [s EXCEPT !.pri = Put(@, i, newp[1])] IN
  IF ~In(s.qp, i) THEN UB(s1, f2) ELSE Ok(s1, f2, <<At(s.qp, i)>>)

\* ------------------------------------------------------------------ remove
\* store.rs:432.  ret = <<>> or <<key, pri, pos>>
StoreRemove(s, k, f) ==
  IF f.look = 0 THEN Panic(s, f) ELSE
  LET f1 == TickLook(f) IN
  IF ~Has(s, k) THEN Ok(s, f1, <<>>) ELSE
  LET i  == IdxOf(s, k)
      m  == [s EXCEPT !.keys = VSR(@, i), !.pri = VSR(@, i)] IN     \* map.swap_remove_full
  IF s.size = 0 THEN Panic(m, f1) ELSE
  LET size1 == s.size - 1
      m1 == [m EXCEPT !.size = size1] IN
  IF ~In(s.qp, i) THEN Panic(m1, f1) ELSE                           \* qp.swap_remove asserts
  LET pos == At(s.qp, i)
      qp1 == VSR(s.qp, i)
      m2  == [m1 EXCEPT !.qp = qp1] IN
  IF ~In(s.heap, pos) THEN Panic(m2, f1) ELSE                       \* heap.swap_remove asserts
  LET heap1 == VSR(s.heap, pos)
      m3    == [m2 EXCEPT !.heap = heap1] IN
  IF i < size1 /\ ~In(qp1, i) THEN UB(m3, f1) ELSE
  LET qpi == IF i < size1 THEN At(qp1, i) ELSE 0 IN
  IF i < size1 /\ qpi # size1 /\ ~In(heap1, qpi) THEN UB(m3, f1) ELSE
  LET qp2   == IF i < size1 /\ qpi = size1 THEN Put(qp1, i, pos) ELSE qp1
      heap2 == IF i < size1 /\ qpi # size1 THEN Put(heap1, qpi, i) ELSE heap1
      m4    == [m3 EXCEPT !.qp = qp2, !.heap = heap2] IN
  IF pos < size1 /\ ~In(heap2, pos) THEN UB(m4, f1) ELSE
  LET hp == IF pos < size1 THEN At(heap2, pos) ELSE 0 IN
  IF pos < size1 /\ hp # size1 /\ ~In(qp2, hp) THEN UB(m4, f1) ELSE
  LET heap3 == IF pos < size1 /\ hp = size1 THEN Put(heap2, pos, i) ELSE heap2
      qp3   == IF pos < size1 /\ hp # size1 THEN Put(qp2, hp, pos) ELSE qp2 IN
  Ok([m4 EXCEPT !.heap = heap3, !.qp = qp3], f1, <<At(s.keys, i), At(s.pri, i), pos>>)

\* ------------------------------------------------------------------ retain_mut
\* store.rs:328.  map.retain2(pred) visits the slots in order; `keep` is the set of slot
\* indices accepted, `wr` a function slot index -> new priority for the slots rewritten.
\* If the element count changed the tables are reset to the identity.
\* A predicate panicking at its (k+1)-th call leaves "kept prefix ++ unprocessed suffix" in the
\* map (Vec::retain_mut's drop guard) and the tables untouched.
RetainEntries(s, keep, wr, upto) ==   \* slots < upto are processed, the rest kept as they are
  LET n   == Len(s.keys)
      np  == [i \in 1..n |-> IF (i-1) < upto /\ (i-1) \in DOMAIN wr THEN wr[i-1] ELSE s.pri[i]]
      sel == SelectSeq(Iota(n), LAMBDA i : i >= upto \/ i \in keep)
  IN [keys |-> [j \in 1..Len(sel) |-> At(s.keys, sel[j])],
      pri  |-> [j \in 1..Len(sel) |-> At(np, sel[j])]]
StoreRetain(s, keep, wr, f) ==
  LET n == Len(s.keys) IN
  IF f.cb < n THEN                                                   \* call number f.cb+1 panics
     LET e == RetainEntries(s, keep, wr, f.cb) IN
     Panic([s EXCEPT !.keys = e.keys, !.pri = e.pri], [f EXCEPT !.cb = 0])
  ELSE
  LET e  == RetainEntries(s, keep, wr, n)
      f1 == [f EXCEPT !.cb = @ - n]
      m  == Len(e.keys) IN
  IF m # s.size
  THEN Ok([keys |-> e.keys, pri |-> e.pri, heap |-> Iota(m), qp |-> Iota(m), size |-> m], f1, <<>>)
  ELSE Ok([s EXCEPT !.keys = e.keys, !.pri = e.pri], f1, <<>>)

\* ------------------------------------------------------------------ From<Vec>, FromIterator, Extend
\* pairs: sequence of <<key, pri>>
RECURSIVE FromVecLoop(_,_,_)
FromVecLoop(s, pairs, f) ==                                          \* store.rs:538 (first wins)
  IF pairs = <<>> THEN Ok([s EXCEPT !.size = Len(s.heap)], f, <<>>) ELSE
  IF f.look = 0 THEN Panic(s, f) ELSE
  LET k == pairs[1][1]  p == pairs[1][2]  f1 == TickLook(f)  i == Len(s.heap) IN
  IF Has(s, k) THEN FromVecLoop(s, Tail(pairs), f1)
  ELSE FromVecLoop([s EXCEPT !.keys = Append(@, k), !.pri = Append(@, p),
                             !.qp = Append(@, i), !.heap = Append(@, i)], Tail(pairs), f1)
StoreFromVec(pairs, f) == FromVecLoop(Empty, pairs, f)

\* store.rs:560 / 595 (last wins; tables appended with `size`, size bumped per element).
\* One cb tick per call of the user's iterator (the elements and the final None).
RECURSIVE ExtendLoop(_,_,_)
ExtendLoop(s, pairs, f) ==
  IF pairs = <<>> THEN (IF f.cb = 0 THEN Panic(s, f) ELSE Ok(s, TickCb(f), <<>>)) ELSE    \* the call returning None
  IF f.cb = 0 THEN Panic(s, f) ELSE
  IF f.look = 0 THEN Panic(s, f) ELSE
  LET k == pairs[1][1]  p == pairs[1][2]  f1 == TickLook(TickCb(f)) IN
  IF Has(s, k) THEN ExtendLoop([s EXCEPT !.pri = Put(@, IdxOf(s, k), p)], Tail(pairs), f1)
  ELSE ExtendLoop([s EXCEPT !.keys = Append(@, k), !.pri = Append(@, p),
                            !.qp = Append(@, s.size), !.heap = Append(@, s.size),
                            !.size = @ + 1], Tail(pairs), f1)
StoreExtend(s, pairs, f) == ExtendLoop(s, pairs, f)
StoreFromIter(pairs, f)  == ExtendLoop(Empty, pairs, f)

\* serde visit_seq (store.rs, mod serde): map.insert keeps the FIRST key and takes the LAST priority;
\* the index tables grow only for a new item (since fix af03d4b; before, they grew for every pair)
RECURSIVE DeLoop(_,_,_)
DeLoop(s, pairs, f) ==
  IF pairs = <<>> THEN Ok(s, f, <<>>) ELSE
  IF f.look = 0 THEN Panic(s, f) ELSE
  LET k == pairs[1][1]  p == pairs[1][2]  f1 == TickLook(f) IN
  IF Has(s, k) THEN DeLoop([s EXCEPT !.pri = Put(@, IdxOf(s, k), p)], Tail(pairs), f1)
  ELSE DeLoop([s EXCEPT !.keys = Append(@, k), !.pri = Append(@, p),
                        !.qp = Append(@, s.size), !.heap = Append(@, s.size),
                        !.size = @ + 1], Tail(pairs), f1)
StoreDeserialize(pairs, f) == DeLoop(Empty, pairs, f)
\* Serialize: the entries in slot order, announced length = size
StoreSerialize(s) == [len |-> s.size, entries |-> Entries(s)]

\* ------------------------------------------------------------------ append
\* store.rs:474.  Returns [a, b] = (self, other) afterwards inside st.
RECURSIVE AppendLoop(_,_,_)
AppendLoop(s, ents, f) ==            \* ents: sequence of <<key, pri>> drained from other, slot order
  IF ents = <<>> THEN Ok(s, f, <<>>) ELSE
  IF f.look = 0 THEN Panic(s, f) ELSE
  LET k == ents[1][1]  p == ents[1][2]  f1 == TickLook(f) IN
  IF Has(s, k) THEN AppendLoop(s, Tail(ents), f1)
  ELSE AppendLoop([s EXCEPT !.keys = Append(@, k), !.pri = Append(@, p),
                            !.heap = Append(@, s.size), !.qp = Append(@, s.size),
                            !.size = @ + 1], Tail(ents), f1)
StoreAppend(a, b, f) ==
  LET swapped == b.size > a.size
      self  == IF swapped THEN b ELSE a
      other == IF swapped THEN a ELSE b IN
  IF other.size = 0 THEN Ok([a |-> self, b |-> other], f, <<>>) ELSE
  LET r == AppendLoop(self, Entries(other), f) IN
  \* other.drain() empties other even when the loop unwinds (Drain's destructor)
  [r EXCEPT !.st = [a |-> r.st, b |-> Empty]]

\* ------------------------------------------------------------------ drain / clear
StoreClear(s) == Empty

\* ------------------------------------------------------------------ representation invariants
\* WF: what every get_unchecked in the crate relies on
WF(s) ==
  /\ Len(s.keys) = s.size /\ Len(s.pri) = s.size /\ Len(s.heap) = s.size /\ Len(s.qp) = s.size
  /\ \A p \in 1..s.size : s.heap[p] \in 0..(s.size-1) /\ s.qp[s.heap[p]+1] = p-1
  /\ \A i, j \in 1..s.size : i # j => s.keys[i] # s.keys[j]
=============================================================================
