------------------------------ MODULE MCTables ------------------------------
(***************************************************************************)
(* The index-table lemma behind every unchecked access of the crate        *)
(* (property C04): Store::swap, Store::swap_remove and Store::remove - the *)
(* four-case repair - keep `heap` and `qp` mutually inverse permutations   *)
(* of 0..size-1 and in step with the map, from EVERY pair of mutually      *)
(* inverse tables, not only from those some heap algorithm happens to      *)
(* produce.  The priorities play no role here (all 0); the keys are the    *)
(* slot numbers as strings.  TLC enumerates all n! table pairs for n <= N  *)
(* and every argument of the three operations.                             *)
(***************************************************************************)
EXTENDS Store, SequencesExt
CONSTANT N
VARIABLES st, step
KeyOf(i) == ToString(i)
Perms(m) == {p \in [1..m -> 0..(m-1)] : \A i, j \in 1..m : i # j => p[i] # p[j]}
InvPerm(p, m) == [i \in 1..m |-> (CHOOSE k \in 1..m : p[k] = i - 1) - 1]
StoresOf(m) == {[keys |-> [i \in 1..m |-> KeyOf(i-1)], pri |-> [i \in 1..m |-> 0], heap |-> h, qp |-> InvPerm(h, m), size |-> m] :
                  h \in Perms(m)}
Init == st \in UNION {StoresOf(m) : m \in 0..N} /\ step = 0
Do(r) == r.out = "ok" /\ st' = r.st /\ step' = 1
Next == /\ step = 0
        /\ \/ \E a, b \in 0..(st.size-1) : Do(Swap(st, a, b, Inf))
           \/ \E pos \in 0..(st.size-1) : Do(SwapRemove(st, pos, Inf))
           \/ \E i \in 0..(st.size-1) : Do(StoreRemove(st, At(st.keys, i), Inf))
\* no operation reports a failed (checked or unchecked) access from a well-formed store ...
NoBadOut == step = 0 =>
  /\ \A a, b \in 0..(st.size-1) : Swap(st, a, b, Inf).out = "ok"
  /\ \A pos \in 0..(st.size-1) : SwapRemove(st, pos, Inf).out = "ok"
  /\ \A i \in 0..(st.size-1) : StoreRemove(st, At(st.keys, i), Inf).out = "ok"
\* ... and the result is well-formed again
WFInv == WF(st)
\* the removed key is really gone and every other key keeps its slot-to-position link
=============================================================================
