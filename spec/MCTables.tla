------------------------------ MODULE MCTables ------------------------------
(***************************************************************************)
(* The index-table lemma behind every unchecked access of the crate        *)
(* (property C04): Store::swap, Store::swap_remove and Store::remove - the *)
(* four-case repair - keep `heap` and `qp` mutually inverse permutations   *)
(* of 0..size-1 and in step with the map, from EVERY pair of mutually      *)
(* inverse tables, not only from those some heap algorithm happens to      *)
(* produce.  The priorities play no role here (all 0); the keys are the    *)
(* slot numbers as strings.  TLC enumerates all n! table pairs for n <= N  *)
(* and every argument of the three operations.                             *)
(***************************************************************************)
EXTENDS Store, SequencesExt, TableLemma
CONSTANT N
VARIABLES st, step
KeyOf(i) == ToString(i)
Perms(m) == {p \in [1..m -> 0..(m-1)] : \A i, j \in 1..m : i # j => p[i] # p[j]}
InvPerm(p, m) == [i \in 1..m |-> (CHOOSE k \in 1..m : p[k] = i - 1) - 1]
StoresOf(m) == {[keys |-> [i \in 1..m |-> KeyOf(i-1)], pri |-> [i \in 1..m |-> 0], heap |-> h, qp |-> InvPerm(h, m), size |-> m] :
                  h \in Perms(m)}
Init == st \in UNION {StoresOf(m) : m \in 0..N} /\ step = 0
Do(r) == r.out = "ok" /\ st' = r.st /\ step' = 1
Next == /\ step = 0
        /\ \/ \E a, b \in 0..(st.size-1) : Do(Swap(st, a, b, Inf))
           \/ \E pos \in 0..(st.size-1) : Do(SwapRemove(st, pos, Inf))
           \/ \E i \in 0..(st.size-1) : Do(StoreRemove(st, At(st.keys, i), Inf))
\* no operation reports a failed (checked or unchecked) access from a well-formed store ...
NoBadOut == step = 0 =>
  /\ \A a, b \in 0..(st.size-1) : Swap(st, a, b, Inf).out = "ok"
  /\ \A pos \in 0..(st.size-1) : SwapRemove(st, pos, Inf).out = "ok"
  /\ \A i \in 0..(st.size-1) : StoreRemove(st, At(st.keys, i), Inf).out = "ok"
\* ... and the result is well-formed again
WFInv == WF(st)
\* The TLAPS-proved lemmas of TableLemma.tla are stated on functions over 0..n-1.  Correspondence: on every
\* enumerated store the function-based definitions proved there compute exactly what the sequence-based
\* operators of Store.tla (the transcription of store.rs) compute.
FnOf(s) == [k \in 0..(Len(s)-1) |-> s[k+1]]
SeqOfFn(f, m) == [k \in 1..m |-> f[k-1]]
Corresponds == step = 0 =>
  LET n == st.size  h == FnOf(st.heap)  q == FnOf(st.qp) IN
  /\ \A a, b \in 0..(n-1) :
        LET r == Swap(st, a, b, Inf).st IN
        r.heap = SeqOfFn(SwapHeap(h, a, b), n) /\ r.qp = SeqOfFn(SwapQp(h, q, a, b), n)
  /\ \A pos \in 0..(n-1) :
        LET r == SwapRemove(st, pos, Inf).st IN
        r.heap = SeqOfFn(SR_heap2(n, h, q, pos), n-1) /\ r.qp = SeqOfFn(SR_qp2(n, h, q, pos), n-1)
  /\ \A i \in 0..(n-1) :
        LET r == StoreRemove(st, At(st.keys, i), Inf).st IN
        r.heap = SeqOfFn(RM_heap3(n, h, q, i), n-1) /\ r.qp = SeqOfFn(RM_qp3(n, h, q, i), n-1)
=============================================================================
