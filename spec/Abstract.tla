----------------------------- MODULE Abstract -----------------------------
(***************************************************************************)
(* The abstract layer: a queue IS a finite map                             *)
(*        key -> [pay, r, t]                                               *)
(* (payload of the stored item that takes no part in Eq/Hash, priority     *)
(* rank, priority tag; the order is on r only, the tag tells equal         *)
(* re-assignments apart).                                                  *)
(*                                                                         *)
(* For every public operation there is a pair                              *)
(*    F_op(a, e)  the set of failure tags of event e observed in state a   *)
(*    N_op(a, e)  the successor contents, following the implementation's   *)
(*                choice where the documentation leaves one                *)
(* e is the event record logged by the harness (or built by MCQueue from   *)
(* the concrete operators - the SAME predicates judge the model and the    *)
(* code).  Events encode Option as <<>> / <<x>>; elements are records      *)
(* [k, pay, r, t].                                                         *)
(***************************************************************************)
EXTENDS Integers, Sequences, FiniteSets, TLC

EmptyMap == [x \in {} |-> 0]
RestrictTo(f, S) == [x \in S |-> f[x]]
Dom(a) == DOMAIN a

El(k, v)    == [k |-> k, pay |-> v.pay, r |-> v.r, t |-> v.t]
Val(x)      == [pay |-> x.pay, r |-> x.r, t |-> x.t]
Proj4(x)    == [k |-> x.k, pay |-> x.pay, r |-> x.r, t |-> x.t]
Lookup(a, k) == IF k \in Dom(a) THEN <<El(k, a[k])>> ELSE <<>>
Elems(a)    == {El(k, a[k]) : k \in Dom(a)}
PriOpt(a, k) == IF k \in Dom(a) THEN <<[r |-> a[k].r, t |-> a[k].t]>> ELSE <<>>
With(a, k, v) == [x \in Dom(a) \cup {k} |-> IF x = k THEN v ELSE a[x]]
Without(a, k) == RestrictTo(a, Dom(a) \ {k})
SetPri(a, k, r, t) == With(a, k, [pay |-> a[k].pay, r |-> r, t |-> t])
SetPay(a, k, p)    == With(a, k, [pay |-> p, r |-> a[k].r, t |-> a[k].t])

IsMax(a, k) == \A x \in Dom(a) : a[x].r <= a[k].r
IsMin(a, k) == \A x \in Dom(a) : a[x].r >= a[k].r
IsExt(a, k, isMax) == IF isMax THEN IsMax(a, k) ELSE IsMin(a, k)

T(cond, tag) == IF cond THEN {} ELSE {tag}
SeqToSet(s) == {s[i] : i \in 1..Len(s)}
NoDupSeq(s) == \A i, j \in 1..Len(s) : i # j => s[i] # s[j]

\* ------------------------------------------------------------------ push family
F_push(a, e) == T(e.ret = PriOpt(a, e.k), "ret")
N_push(a, e) == IF e.k \in Dom(a) THEN SetPri(a, e.k, e.r, e.t)
                ELSE With(a, e.k, [pay |-> e.pay, r |-> e.r, t |-> e.t])

\* push_increase / push_decrease: move only in their direction
Moves(a, e, up) == e.k \notin Dom(a) \/ (IF up THEN e.r > a[e.k].r ELSE e.r < a[e.k].r)
F_pushdir(a, e, up) ==
  IF Moves(a, e, up) THEN T(e.ret = PriOpt(a, e.k), "ret")
  ELSE T(e.ret = <<[r |-> e.r, t |-> e.t]>>, "ret")          \* the offered priority comes back
N_pushdir(a, e, up) == IF Moves(a, e, up) THEN N_push(a, e) ELSE a

\* ------------------------------------------------------------------ change_priority(_by), remove
F_change(a, e) == T(e.ret = PriOpt(a, e.k), "ret")
N_change(a, e) == IF e.k \in Dom(a) THEN SetPri(a, e.k, e.r, e.t) ELSE a
F_changeby(a, e) == T(e.ret = (e.k \in Dom(a)), "ret")
                    \cup T(e.called = (IF e.k \in Dom(a) THEN 1 ELSE 0), "setter_calls")
N_changeby(a, e) == N_change(a, e)
F_remove(a, e) == T(e.ret = Lookup(a, e.k), "ret")
N_remove(a, e) == Without(a, e.k)

\* ------------------------------------------------------------------ peeks
\* an Option<element> `o` addresses a stored extreme element of a
F_ext(a, o, isMax, pfx) ==
  IF Dom(a) = {} THEN T(o = <<>>, pfx \o "_none")
  ELSE IF Len(o) # 1 THEN {pfx \o "_none"}
  ELSE IF o[1].k \notin Dom(a) \/ Lookup(a, o[1].k) # <<Proj4(o[1])>> THEN {pfx \o "_stored"}
  ELSE T(IsExt(a, o[1].k, isMax), pfx \o "_extreme")
F_peek(a, e, isMax) == F_ext(a, e.ret, isMax, "peek")
F_peekmut(a, e, isMax) == F_ext(a, e.ret, isMax, "peek") \cup T(e.ret = e.pk, "same_as_peek")
N_peekmut(a, e) == IF e.ret # <<>> /\ e.newpay # <<>> /\ e.ret[1].k \in Dom(a)
                   THEN SetPay(a, e.ret[1].k, e.newpay[1]) ELSE a

\* ------------------------------------------------------------------ pops
F_pop(a, e, isMax) == F_ext(a, e.ret, isMax, "pop") \cup T(e.ret = e.pk, "same_as_peek")
N_pop(a, e) == IF e.ret = <<>> THEN a ELSE Without(a, e.ret[1].k)

\* pop_if family: e.seen = elements shown to the predicate (at most one), e.set / e.newpay =
\* what the predicate wrote, e.yes = its answer
Written(x, e) == [k |-> x.k,
                  pay |-> IF e.newpay = <<>> THEN x.pay ELSE e.newpay[1],
                  r |-> IF e.set = <<>> THEN x.r ELSE e.set[1].r,
                  t |-> IF e.set = <<>> THEN x.t ELSE e.set[1].t]
F_popif(a, e, isMax) ==
  IF Dom(a) = {} THEN T(e.seen = <<>>, "popif_seen") \cup T(e.ret = <<>>, "ret")
  ELSE IF Len(e.seen) # 1 THEN {"popif_seen"}
  ELSE F_ext(a, e.seen, isMax, "popif")
       \cup T(e.seen = e.pk, "same_as_peek")
       \cup T(e.ret = (IF e.yes THEN <<Written(e.seen[1], e)>> ELSE <<>>), "ret")
N_popif(a, e) ==
  IF Len(e.seen) # 1 \/ e.seen[1].k \notin Dom(a) THEN a
  ELSE IF e.yes THEN Without(a, e.seen[1].k)
  ELSE With(a, e.seen[1].k, Val(Written(e.seen[1], e)))

\* ------------------------------------------------------------------ lookups
F_get(a, e)   == T(e.ret = Lookup(a, e.k), "ret")
F_getpri(a, e) == T(e.ret = PriOpt(a, e.k), "ret")
F_getmut(a, e) == T(e.ret = Lookup(a, e.k), "ret")
N_getmut(a, e) == IF e.ret # <<>> /\ e.newpay # <<>> /\ e.k \in Dom(a) THEN SetPay(a, e.k, e.newpay[1]) ELSE a

\* the composite observation: len, is_empty, iter (twice), get/get_priority/get_mut for the
\* whole universe through owned and borrowed keys, into_iter and into_vec of a clone
BagOK(a, s) == Len(s) = Cardinality(Dom(a)) /\ SeqToSet(s) = Elems(a)
F_contents(a, e) ==
  T(e.len = Cardinality(Dom(a)), "len")
  \cup T(e.is_empty = (Dom(a) = {}), "is_empty")
  \cup T(BagOK(a, e.iter), "iter")
  \cup T(BagOK(a, e.iter_ref), "iter")
  \cup T(BagOK(a, e.into_iter), "into_iter")
  \cup T(Len(e.into_vec) = Cardinality(Dom(a))
         /\ SeqToSet(e.into_vec) = {[k |-> k, pay |-> a[k].pay] : k \in Dom(a)}, "into_vec")
  \cup T(\A i \in 1..Len(e.gets) : LET g == e.gets[i] IN
           /\ g.get = Lookup(a, g.k) /\ g.get_mut = Lookup(a, g.k) /\ g.gp = PriOpt(a, g.k), "get")
  \cup T(\A i \in 1..Len(e.gets) : LET g == e.gets[i] IN
           /\ g.get_b = Lookup(a, g.k) /\ g.gp_b = PriOpt(a, g.k), "get_borrowed")

\* ------------------------------------------------------------------ sorted consumption
\* out: sequence of [y, len]; calls[i] = 0: from the min end, 1: from the max end; a vec mode
\* reports items only (t = -1): the rank is then taken from the map.
RECURSIVE SortedWalk(_,_,_,_,_)
SortedWalk(rem, calls, out, i, full) ==
  IF i > Len(out) THEN {} ELSE
  LET o == out[i].y  isMax == calls[i] = 1 IN
  T(out[i].len = -1 \/ out[i].len = Cardinality(Dom(rem)), "sorted_len") \cup
  (IF Dom(rem) = {} THEN T(o = <<>>, "sorted_after_end") \cup SortedWalk(rem, calls, out, i+1, full)
   ELSE IF Len(o) # 1 THEN {"sorted_missing"}
   ELSE IF o[1].k \notin Dom(rem) THEN {"sorted_dup_or_unknown"}
   ELSE T(IF full THEN Lookup(rem, o[1].k) = <<o[1]>> ELSE rem[o[1].k].pay = o[1].pay, "sorted_elem")
        \cup T(IsExt(rem, o[1].k, isMax), "sorted_order")
        \cup SortedWalk(Without(rem, o[1].k), calls, out, i+1, full))
F_sorted(a, e) ==
  LET n == Len(e.out)
      \* direction of every step
      calls == IF e.mode = "iter" /\ e.kind = "pq" THEN [i \in 1..n |-> 1]      \* PriorityQueue: forward = maximum first
               ELSE IF e.mode \in {"pop_calls", "iter"} THEN e.calls
               ELSE IF e.mode \in {"pop", "vec", "pop_max", "desc_vec"} THEN [i \in 1..n |-> 1]
               ELSE [i \in 1..n |-> 0]
      full == e.mode \notin {"vec", "asc_vec", "desc_vec"}
      complete == e.mode \notin {"pop_calls", "iter"} IN
  (IF Len(calls) # n THEN {"sorted_calls"} ELSE SortedWalk(a, calls, e.out, 1, full))
  \cup T(~complete \/ n = Cardinality(Dom(a)), "sorted_count")

\* ------------------------------------------------------------------ retain / retain_mut
\* e.calls: sequence of [k, pay, r, t, keep, set, newpay]
WrittenC(c) == [pay |-> IF c.newpay = <<>> THEN c.pay ELSE c.newpay[1],
                r |-> IF c.set = <<>> THEN c.r ELSE c.set[1].r,
                t |-> IF c.set = <<>> THEN c.t ELSE c.set[1].t]
F_retain(a, e) ==
  T(Len(e.calls) = Cardinality(Dom(a)) /\ {Proj4(e.calls[i]) : i \in 1..Len(e.calls)} = Elems(a), "retain_calls")
N_retain(a, e) ==
  LET kept == {i \in 1..Len(e.calls) : e.calls[i].keep} IN
  [k \in {e.calls[i].k : i \in kept} |->
      WrittenC(e.calls[CHOOSE i \in kept : e.calls[i].k = k])]

\* ------------------------------------------------------------------ iter_mut (front consumption)
\* e.ys: sequence of [k, pay, r, t, ai, set, newpay]
F_itermut(a, e) ==
  T(NoDupSeq([i \in 1..Len(e.ys) |-> e.ys[i].k]) /\ NoDupSeq([i \in 1..Len(e.ys) |-> e.ys[i].ai]), "itermut_dup")
  \cup T(\A i \in 1..Len(e.ys) : Lookup(a, e.ys[i].k) = <<Proj4(e.ys[i])>>, "itermut_elem")
N_itermut(a, e) ==
  [k \in Dom(a) |-> IF \E i \in 1..Len(e.ys) : e.ys[i].k = k
                    THEN WrittenC(e.ys[CHOOSE i \in 1..Len(e.ys) : e.ys[i].k = k]) ELSE a[k]]

\* drain().take(n), then the guard is dropped: the n first yielded elements are distinct stored elements, as
\* many as asked for (or all); whatever was consumed, the queue is empty afterwards
F_drain(a, e) ==
  T(NoDupSeq([i \in 1..Len(e.ys) |-> e.ys[i].k]) /\ \A i \in 1..Len(e.ys) : Lookup(a, e.ys[i].k) = <<Proj4(e.ys[i])>>, "drain_elem")
  \cup T(Len(e.ys) = (IF e.n < Cardinality(Dom(a)) THEN e.n ELSE Cardinality(Dom(a))), "drain_count")

\* ------------------------------------------------------------------ bulk construction
\* pairs: sequence of elements [k, pay, r, t]
LastIdx(p, k)  == CHOOSE i \in 1..Len(p) : p[i].k = k /\ \A j \in (i+1)..Len(p) : p[j].k # k
FirstIdx(p, k) == CHOOSE i \in 1..Len(p) : p[i].k = k /\ \A j \in 1..(i-1) : p[j].k # k
KeysOf(p) == {p[i].k : i \in 1..Len(p)}
\* Extend == a sequence of pushes: last priority per item; an item already present keeps its
\* stored value, a new item keeps the value of its first occurrence
N_extend(a, e) ==
  LET p == e.pairs IN
  [k \in Dom(a) \cup KeysOf(p) |->
     IF k \notin KeysOf(p) THEN a[k]
     ELSE [pay |-> IF k \in Dom(a) THEN a[k].pay ELSE p[FirstIdx(p, k)].pay,
           r |-> p[LastIdx(p, k)].r, t |-> p[LastIdx(p, k)].t]]
\* From<Vec>: first pair per item wins entirely
N_fromvec(e) == LET p == e.pairs IN [k \in KeysOf(p) |-> Val(p[FirstIdx(p, k)])]
\* FromIterator: last priority per item; which of the equal items is stored is left open
\* (the code documents "the item inside the pq is updated"): judged by OK_fromiter
OK_fromiter(e, res) ==
  LET p == e.pairs IN
  /\ Dom(res) = KeysOf(p)
  /\ \A k \in Dom(res) : /\ res[k].r = p[LastIdx(p, k)].r /\ res[k].t = p[LastIdx(p, k)].t
                         /\ \E i \in 1..Len(p) : p[i].k = k /\ p[i].pay = res[k].pay

\* append(q, o): every element of o whose item is absent from q moves; on a clash q's element
\* stays unless o was longer, when either whole element may stay
OK_append(aq, ao, olonger, res) ==
  /\ Dom(res) = Dom(aq) \cup Dom(ao)
  /\ \A k \in Dom(res) :
       IF k \notin Dom(ao) THEN res[k] = aq[k]
       ELSE IF k \notin Dom(aq) THEN res[k] = ao[k]
       ELSE IF olonger THEN res[k] \in {aq[k], ao[k]} ELSE res[k] = aq[k]

\* equality: same items (Eq = key) with equal priorities (rank)
SameContents(a, b) == Dom(a) = Dom(b) /\ \A k \in Dom(a) : a[k].r = b[k].r

\* deserialization of a pair sequence: every distinct item once, with one of the given
\* priorities and one of the given item values
OK_de(e, res) ==
  LET p == e.pairs IN
  /\ Dom(res) = KeysOf(p)
  /\ \A k \in Dom(res) : /\ \E i \in 1..Len(p) : p[i].k = k /\ p[i].r = res[k].r /\ p[i].t = res[k].t
                         /\ \E i \in 1..Len(p) : p[i].k = k /\ p[i].pay = res[k].pay
F_ser(a, e) == T(e.ret = "ok", "ser_err")
               \cup (IF e.ret = "ok" THEN T(BagOK(a, e.listing), "ser_listing") ELSE {})
IsMaxOp(op) == op \in {"peek", "peek_max", "peek_mut", "peek_max_mut", "pop", "pop_max", "pop_if", "pop_max_if"}

\* capacity operations: contents untouched; capacity() >= len + n after success; a request that
\* cannot be represented must fail cleanly (try_*)
F_capacity(e) ==
  IF e.op = "shrink_to_fit" THEN T(e.cap >= e.len, "cap_low")
  ELSE IF e.ret = "ok" THEN T(e.cls # "small" \/ e.cap >= e.len + e.n, "cap_low")
                              \cup T(e.cls \in {"small", "huge"}, "reserve_ok_impossible")
  \* a request that cannot be satisfied leaves the queue unchanged: also its capacity
  ELSE T("cap_after" \notin DOMAIN e \/ e.cap_after = e.cap_before, "reserve_err_changed")

\* ------------------------------------------------------------------ per-op judgement (shared by MCQueue and TraceQueue)
\* single-queue operations: [f |-> failure tags, n |-> expected successor contents]
Judge(a, e) ==
  CASE e.op = "push"               -> [f |-> F_push(a, e), n |-> N_push(a, e)]
    [] e.op = "push_increase"      -> [f |-> F_pushdir(a, e, TRUE),  n |-> N_pushdir(a, e, TRUE)]
    [] e.op = "push_decrease"      -> [f |-> F_pushdir(a, e, FALSE), n |-> N_pushdir(a, e, FALSE)]
    [] e.op = "change_priority"    -> [f |-> F_change(a, e), n |-> N_change(a, e)]
    [] e.op = "change_priority_by" -> [f |-> F_changeby(a, e), n |-> N_changeby(a, e)]
    [] e.op = "remove"             -> [f |-> F_remove(a, e), n |-> N_remove(a, e)]
    [] e.op \in {"peek", "peek_min", "peek_max"} -> [f |-> F_peek(a, e, IsMaxOp(e.op)), n |-> a]
    [] e.op \in {"peek_mut", "peek_min_mut", "peek_max_mut"}
                                   -> [f |-> F_peekmut(a, e, IsMaxOp(e.op)), n |-> N_peekmut(a, e)]
    [] e.op \in {"pop", "pop_min", "pop_max"} -> [f |-> F_pop(a, e, IsMaxOp(e.op)), n |-> N_pop(a, e)]
    [] e.op \in {"pop_if", "pop_min_if", "pop_max_if"}
                                   -> [f |-> F_popif(a, e, IsMaxOp(e.op)), n |-> N_popif(a, e)]
    [] e.op = "get"                -> [f |-> F_get(a, e), n |-> a]
    [] e.op = "get_priority"       -> [f |-> F_getpri(a, e), n |-> a]
    [] e.op = "get_mut"            -> [f |-> F_getmut(a, e), n |-> N_getmut(a, e)]
    [] e.op = "contents"           -> [f |-> F_contents(a, e), n |-> a]
    [] e.op = "sorted"             -> [f |-> F_sorted(a, e), n |-> a]
    [] e.op \in {"retain", "retain_mut"} -> [f |-> F_retain(a, e), n |-> N_retain(a, e)]
    [] e.op = "iter_mut"           -> [f |-> F_itermut(a, e), n |-> N_itermut(a, e)]
    [] e.op = "extend"             -> [f |-> {}, n |-> N_extend(a, e)]
    [] e.op = "clear"              -> [f |-> {}, n |-> EmptyMap]
    [] e.op = "drain"              -> [f |-> F_drain(a, e), n |-> EmptyMap]
    [] e.op \in {"reserve", "reserve_exact", "try_reserve", "try_reserve_exact", "shrink_to_fit"}
                                   -> [f |-> F_capacity(e), n |-> a]
    [] e.op = "ser"                -> [f |-> F_ser(a, e), n |-> a]
    [] e.op = "debug"              -> [f |-> T(e.nonempty, "debug"), n |-> a]
    [] e.op = "convert"            -> [f |-> {}, n |-> a]
    [] e.op = "clone_into"         -> [f |-> {}, n |-> a]
    [] OTHER                       -> [f |-> {"unknown_op"}, n |-> a]

=============================================================================
