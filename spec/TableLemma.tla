----------------------------- MODULE TableLemma -----------------------------
(***************************************************************************)
(* The index-table lemma for ARBITRARY size n, proved with TLAPS.          *)
(* heap and qp are modelled as functions on 0..n-1 (the sequence-based     *)
(* operators of Store.tla are the same definitions shifted by one).        *)
(***************************************************************************)
EXTENDS Naturals, TLAPS

Idx(n) == 0..(n-1)
Tables(n, heap, qp) == /\ heap \in [Idx(n) -> Idx(n)]
                       /\ qp \in [Idx(n) -> Idx(n)]
                       /\ \A p \in Idx(n) : qp[heap[p]] = p
                       /\ \A i \in Idx(n) : heap[qp[i]] = i

\* Vec::swap_remove(i) on a vector of length n (as a function on 0..n-1)
VSR(n, f, i) == [k \in Idx(n-1) |-> IF k = i THEN f[n-1] ELSE f[k]]

\* Store::swap
SwapHeap(heap, a, b) == [heap EXCEPT ![a] = heap[b], ![b] = heap[a]]
SwapQp(heap, qp, a, b) == [qp EXCEPT ![heap[a]] = qp[heap[b]], ![heap[b]] = qp[heap[a]]]

THEOREM SwapKeeps ==
  ASSUME NEW n \in Nat, NEW heap, NEW qp, Tables(n, heap, qp), NEW a \in Idx(n), NEW b \in Idx(n)
  PROVE  Tables(n, SwapHeap(heap, a, b), SwapQp(heap, qp, a, b))
BY DEF Tables, SwapHeap, SwapQp, Idx

\* Store::swap_remove(position)
SR_heap1(n, heap, pos) == VSR(n, heap, pos)
SR_qp1(n, heap, qp, pos) == IF pos < n - 1 THEN [qp EXCEPT ![SR_heap1(n, heap, pos)[pos]] = pos] ELSE qp
SR_qp2(n, heap, qp, pos) == VSR(n, SR_qp1(n, heap, qp, pos), heap[pos])
SR_heap2(n, heap, qp, pos) ==
  IF heap[pos] < n - 1
  THEN [SR_heap1(n, heap, pos) EXCEPT ![SR_qp2(n, heap, qp, pos)[heap[pos]]] = heap[pos]]
  ELSE SR_heap1(n, heap, pos)

THEOREM SwapRemoveKeeps ==
  ASSUME NEW n \in Nat, n > 0, NEW heap, NEW qp, Tables(n, heap, qp), NEW pos \in Idx(n)
  PROVE  Tables(n - 1, SR_heap2(n, heap, qp, pos), SR_qp2(n, heap, qp, pos))
BY DEF Tables, SR_heap2, SR_qp2, SR_qp1, SR_heap1, VSR, Idx

\* Store::remove(item) where the item sits in map slot i (IndexMap::swap_remove_full moves the last map
\* entry into slot i): the four-case repair of store.rs
RM_pos(qp, i) == qp[i]
RM_qp1(n, qp, i) == VSR(n, qp, i)
RM_heap1(n, heap, qp, i) == VSR(n, heap, qp[i])
RM_qp2(n, heap, qp, i) ==
  IF i < n - 1 /\ RM_qp1(n, qp, i)[i] = n - 1 THEN [RM_qp1(n, qp, i) EXCEPT ![i] = qp[i]] ELSE RM_qp1(n, qp, i)
RM_heap2(n, heap, qp, i) ==
  IF i < n - 1 /\ RM_qp1(n, qp, i)[i] # n - 1
  THEN [RM_heap1(n, heap, qp, i) EXCEPT ![RM_qp1(n, qp, i)[i]] = i] ELSE RM_heap1(n, heap, qp, i)
RM_heap3(n, heap, qp, i) ==
  IF qp[i] < n - 1 /\ RM_heap2(n, heap, qp, i)[qp[i]] = n - 1
  THEN [RM_heap2(n, heap, qp, i) EXCEPT ![qp[i]] = i] ELSE RM_heap2(n, heap, qp, i)
RM_qp3(n, heap, qp, i) ==
  IF qp[i] < n - 1 /\ RM_heap2(n, heap, qp, i)[qp[i]] # n - 1
  THEN [RM_qp2(n, heap, qp, i) EXCEPT ![RM_heap2(n, heap, qp, i)[qp[i]]] = qp[i]] ELSE RM_qp2(n, heap, qp, i)

THEOREM RemoveKeeps ==
  ASSUME NEW n \in Nat, n > 0, NEW heap, NEW qp, Tables(n, heap, qp), NEW i \in Idx(n)
  PROVE  Tables(n - 1, RM_heap3(n, heap, qp, i), RM_qp3(n, heap, qp, i))
<1> DEFINE L == n - 1
<1> USE DEF Tables, RM_heap3, RM_qp3, RM_heap2, RM_qp2, RM_heap1, RM_qp1, VSR, Idx
<1>1. CASE i = L /\ qp[i] = L
  BY <1>1, SMTT(30)
<1>2. CASE i = L /\ qp[i] # L
  BY <1>2, SMTT(30)
<1>3. CASE i # L /\ qp[i] = L
  BY <1>3, SMTT(30)
<1>4. CASE i # L /\ qp[i] # L /\ qp[L] = L
  BY <1>4, SMTT(30)
<1>5. CASE i # L /\ qp[i] # L /\ qp[L] # L /\ qp[L] = qp[i]
  BY <1>5, SMTT(30)
<1>6. CASE i # L /\ qp[i] # L /\ qp[L] # L /\ qp[L] # qp[i]
  BY <1>6, SMTT(60)
<1> QED BY <1>1, <1>2, <1>3, <1>4, <1>5, <1>6

\* push of a new element: both tables are extended by the new slot / position n (then sifted by swaps)
Ext(n, f) == [k \in Idx(n + 1) |-> IF k = n THEN n ELSE f[k]]
THEOREM AppendKeeps ==
  ASSUME NEW n \in Nat, NEW heap, NEW qp, Tables(n, heap, qp)
  PROVE  Tables(n + 1, Ext(n, heap), Ext(n, qp))
BY DEF Tables, Ext, Idx

\* retain_mut / drain / clear / From / FromIterator / Deserialize: identity tables
Id(n) == [k \in Idx(n) |-> k]
THEOREM IdentityIsTables == ASSUME NEW n \in Nat PROVE Tables(n, Id(n), Id(n))
BY DEF Tables, Id, Idx
=============================================================================
