-------------------------------- MODULE Ops --------------------------------
(***************************************************************************)
(* The operation alphabet.  An operation is a record with the same field   *)
(* names as the harness's script language (so that ToJson(op) IS the       *)
(* script).  Apply maps it to the concrete operator of the right queue     *)
(* kind; EventOf builds, from the concrete outcome, the event record that  *)
(* the abstract layer judges - the same record shape the harness logs.     *)
(***************************************************************************)
EXTENDS Abstract, MaxHeap, MinMaxHeap, SequencesExt

\* function key -> rank  ==>  function slot index -> rank (keys not stored are ignored)
WrSlots(s, set, n) ==
  LET ks == {k \in DOMAIN set : Has(s, k) /\ IdxOf(s, k) < n} IN
  [j \in {IdxOf(s, k) : k \in ks} |-> set[CHOOSE k \in ks : IdxOf(s, k) = j]]
\* iter_mut: the first nf slots from the front, then up to nb of the remaining ones from the back
\* (bf: the back ones are taken first, then up to nf of the remaining ones from the front)
NbOf(op) == IF "nb" \in DOMAIN op THEN op.nb ELSE 0
BfOf(op) == "bf" \in DOMAIN op /\ op.bf
MinOf(a, b) == IF a < b THEN a ELSE b
IterSlots(s, nf, nb, bf) ==
  LET len == Len(s.keys)
      f  == IF bf THEN MinOf(nf, len - MinOf(nb, len)) ELSE MinOf(nf, len)
      bk == IF bf THEN MinOf(nb, len) ELSE MinOf(nb, len - f) IN
  {i \in 0..(len-1) : i < f \/ i >= len - bk}
WrIter(s, set, nf, nb, bf) ==
  LET ks == {k \in DOMAIN set : Has(s, k) /\ IdxOf(s, k) \in IterSlots(s, nf, nb, bf)} IN
  [j \in {IdxOf(s, k) : k \in ks} |-> set[CHOOSE k \in ks : IdxOf(s, k) = j]]
KeepSlots(s, keep) == {IdxOf(s, k) : k \in {x \in keep : Has(s, x)}}
\* hint codes of the harness: <<>> = exact; hi = -1: None, -2: usize::MAX, -3: usize::MAX/2 (both
\* saturate the heuristic's arithmetic: code -9, see ExtendRebuilds), -4: 2^16, -5: usize::MAX/4 and -6: 2^40
\* (far above anything yielded but not saturating: code -8)
DecodeHint(h, n) == IF h = <<>> THEN <<n, n>>
                    ELSE <<h[1], CASE h[2] = -2 -> -9 [] h[2] = -3 -> -9 [] h[2] = -4 -> 65536 [] h[2] = -5 -> -8 [] h[2] = -6 -> -8 [] OTHER -> h[2]>>

Apply(kind, s, op, f) ==
  LET pq == kind = "pq" IN
  CASE op.op = "push" -> IF pq THEN PqPush(s, op.k, op.r, f) ELSE DqPush(s, op.k, op.r, f)
    [] op.op = "push_increase" -> IF pq THEN PqPushIncrease(s, op.k, op.r, f) ELSE DqPushIncrease(s, op.k, op.r, f)
    [] op.op = "push_decrease" -> IF pq THEN PqPushDecrease(s, op.k, op.r, f) ELSE DqPushDecrease(s, op.k, op.r, f)
    [] op.op = "change_priority" -> IF pq THEN PqChangePriority(s, op.k, op.r, f) ELSE DqChangePriority(s, op.k, op.r, f)
    [] op.op = "change_priority_by" -> IF pq THEN PqChangePriorityBy(s, op.k, <<op.r>>, f) ELSE DqChangePriorityBy(s, op.k, <<op.r>>, f)
    [] op.op = "remove" -> IF pq THEN PqRemove(s, op.k, f) ELSE DqRemove(s, op.k, f)
    [] op.op = "pop" -> PqPop(s, f)
    [] op.op = "pop_min" -> DqPopMin(s, f)
    [] op.op = "pop_max" -> DqPopMax(s, f)
    [] op.op = "pop_if" -> PqPopIf(s, op.set, op.yes, f)
    [] op.op = "pop_min_if" -> DqPopMinIf(s, op.set, op.yes, f)
    [] op.op = "pop_max_if" -> DqPopMaxIf(s, op.set, op.yes, f)
    [] op.op \in {"retain", "retain_mut"} ->
         LET keep == KeepSlots(s, op.keep)  wr == WrSlots(s, op.set, Len(s.keys)) IN
         IF pq THEN PqRetain(s, keep, wr, f) ELSE DqRetain(s, keep, wr, f)
    [] op.op = "iter_mut" ->
         IF pq THEN PqIterMut(s, WrIter(s, op.set, op.n, 0, FALSE), op.forget, f)
         ELSE DqIterMut(s, WrIter(s, op.set, op.n, NbOf(op), BfOf(op)), op.forget, f)
    [] op.op = "extend" ->
         LET rb == ExtendRebuilds(s.size, DecodeHint(op.hint, Len(op.pairs))) IN
         IF pq THEN PqExtend(s, op.pairs, rb, f) ELSE DqExtend(s, op.pairs, rb, f)
    [] op.op = "convert" -> IF pq THEN DqFromStore(s, f) ELSE PqFromStore(s, f)      \* kind = the OLD kind
    [] op.op = "clear" -> Ok(Empty, f, <<>>)
    \* Store::drain: heap and qp cleared, size 0, the map drained (in slot order) by the returned guard
    [] op.op = "drain" -> Ok(Empty, f, SubSeq(Entries(s), 1, IF op.n < Len(s.keys) THEN op.n ELSE Len(s.keys)))
    [] op.op = "from_vec"  -> IF pq THEN PqFromVec(op.pairs, f) ELSE DqFromVec(op.pairs, f)
    [] op.op = "from_iter" -> IF pq THEN PqFromIter(op.pairs, f) ELSE DqFromIter(op.pairs, f)
    [] op.op = "de" -> IF pq THEN PqDeserialize(op.pairs, f) ELSE DqDeserialize(op.pairs, f)
    [] op.op = "roundtrip" -> IF pq THEN PqDeserialize(Entries(s), f) ELSE DqDeserialize(Entries(s), f)  \* kind = target kind
    [] OTHER -> Ok(s, f, <<>>)
Modelled == {"push", "push_increase", "push_decrease", "change_priority", "change_priority_by", "remove",
             "pop", "pop_min", "pop_max", "pop_if", "pop_min_if", "pop_max_if", "retain", "retain_mut",
             "iter_mut", "extend", "convert", "clear", "drain", "from_vec", "from_iter", "de", "roundtrip"}

\* ------------------------------------------------------------------ model-side events
\* The model carries neither payloads nor tags: both are 0 in model events.
AbsOf(s) == [k \in KeySet(s) |-> [pay |-> 0, r |-> At(s.pri, IdxOf(s, k)), t |-> 0]]
ElAt(s, i) == [k |-> At(s.keys, i), pay |-> 0, r |-> At(s.pri, i), t |-> 0]
OptEl(ret) == IF ret = <<>> THEN <<>> ELSE <<[k |-> ret[1][1], pay |-> 0, r |-> ret[1][2], t |-> 0]>>
OptPri(ret) == IF ret = <<>> THEN <<>> ELSE <<[r |-> ret[1], t |-> 0]>>
PeekOf(kind, s, isMax) ==
  IF kind = "pq" THEN OptEl(PqPeek(s))
  ELSE OptEl((IF isMax THEN DqPeekMax(s, Inf) ELSE DqPeekMin(s, Inf)).ret)
SetRec(set) == IF set = <<>> THEN <<>> ELSE <<[r |-> set[1], t |-> 0]>>

EventOf(kind, s, op, r) ==
  LET base == [op |-> op.op, panic |-> 0] IN
  CASE op.op = "push" ->
         [op |-> op.op, k |-> op.k, pay |-> 0, r |-> op.r, t |-> 0, ret |-> OptPri(r.ret)]
    [] op.op \in {"push_increase", "push_decrease"} ->
         [op |-> op.op, k |-> op.k, pay |-> 0, r |-> op.r, t |-> 0,
          ret |-> IF Len(r.ret) = 2 THEN <<[r |-> r.ret[1], t |-> 0]>> ELSE OptPri(r.ret)]
    [] op.op = "change_priority" ->
         [op |-> op.op, k |-> op.k, r |-> op.r, t |-> 0, ret |-> OptPri(r.ret)]
    [] op.op = "change_priority_by" ->
         [op |-> op.op, k |-> op.k, r |-> op.r, t |-> 0, ret |-> r.ret[1], called |-> IF r.ret[1] THEN 1 ELSE 0]
    [] op.op = "remove" -> [op |-> op.op, k |-> op.k, ret |-> OptEl(r.ret)]
    [] op.op \in {"pop", "pop_min", "pop_max"} ->
         [op |-> op.op, pk |-> PeekOf(kind, s, IsMaxOp(op.op)), ret |-> OptEl(r.ret)]
    [] op.op \in {"pop_if", "pop_min_if", "pop_max_if"} ->
         LET pk == PeekOf(kind, s, IsMaxOp(op.op)) IN
         [op |-> op.op, pk |-> pk, seen |-> pk, set |-> SetRec(op.set), newpay |-> <<>>, yes |-> op.yes,
          ret |-> OptEl(r.ret)]
    [] op.op \in {"retain", "retain_mut"} ->
         [op |-> op.op,
          calls |-> [i \in 1..Len(s.keys) |->
                       [k |-> s.keys[i], pay |-> 0, r |-> s.pri[i], t |-> 0, keep |-> s.keys[i] \in op.keep,
                        set |-> IF s.keys[i] \in DOMAIN op.set THEN <<[r |-> op.set[s.keys[i]], t |-> 0]>> ELSE <<>>,
                        newpay |-> <<>>]]]
    [] op.op = "iter_mut" ->
         LET sl  == IterSlots(s, op.n, IF kind = "pq" THEN 0 ELSE NbOf(op), BfOf(op))
             ord == SetToSortSeq(sl, LAMBDA x, y : x < y) IN
         [op |-> op.op, forget |-> op.forget,
          ys |-> [j \in 1..Len(ord) |->
                    LET i == ord[j] + 1 IN
                    [k |-> s.keys[i], pay |-> 0, r |-> s.pri[i], t |-> 0, ai |-> i,
                     set |-> IF s.keys[i] \in DOMAIN op.set THEN <<[r |-> op.set[s.keys[i]], t |-> 0]>> ELSE <<>>,
                     newpay |-> <<>>]]]
    [] op.op = "drain" ->
         [op |-> op.op, n |-> op.n, ys |-> [i \in 1..Len(r.ret) |-> [k |-> r.ret[i][1], pay |-> 0, r |-> r.ret[i][2], t |-> 0]]]
    [] op.op = "extend" ->
         [op |-> op.op, pairs |-> [i \in 1..Len(op.pairs) |-> [k |-> op.pairs[i][1], pay |-> 0, r |-> op.pairs[i][2], t |-> 0]]]
    [] OTHER -> base
=============================================================================
