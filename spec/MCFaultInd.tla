----------------------------- MODULE MCFaultInd -----------------------------
(***************************************************************************)
(* Inductiveness of the safe-representation predicate (property C10).      *)
(*                                                                         *)
(* MCFault explores histories with a bounded number of faults and of       *)
(* operations after them.  Here the initial states are ALL stores that     *)
(* satisfy SafeRep - heap and qp mutually inverse bijections of `size`     *)
(* entries, the map possibly SHORTER than `size` (what a panicking retain  *)
(* predicate leaves behind) - with any priorities, ordered or not, and     *)
(* ONE step of every operation is taken from each: fault free, or with a   *)
(* panic injected at any callback of any class.  Checked:                  *)
(*   NoUB     no such step performs an unchecked out-of-bounds access      *)
(*   SafeRep  and it leads to a SafeRep state again                        *)
(* Together: from a SafeRep state no continuation of any length, with any  *)
(* number of caught panics, reaches undefined behaviour (within the        *)
(* universe).  The empty store is SafeRep and so is every fault-free       *)
(* reachable state (WF implies SafeRep).                                   *)
(***************************************************************************)
EXTENDS MCFault

ItemSeq == SetToSeq(Items)
Perms(m) == {p \in [1..m -> 0..(m-1)] : \A i, j \in 1..m : i # j => p[i] # p[j]}
InvPerm(p, m) == [i \in 1..m |-> (CHOOSE k \in 1..m : p[k] = i - 1) - 1]
SafeStores ==
  UNION {{[keys |-> SubSeq(ItemSeq, 1, j), pri |-> pr, heap |-> h, qp |-> InvPerm(h, m), size |-> m] :
            pr \in [1..j -> Prios], h \in Perms(m)} : m \in 0..MaxSize, j \in 0..MaxSize}
AllSafe == {s \in SafeStores : Len(s.keys) <= s.size}

IndInit == st \in AllSafe /\ hist = <<>> /\ faults = 0 /\ after = 0 /\ status = "ok"
StepC(op) == LET r == Apply(Kind, st, op, Inf) IN
             /\ st' = r.st /\ status' = (IF r.out = "ub" THEN "ub" ELSE "ok")
             /\ hist' = <<op>> /\ faults' = 0 /\ after' = 0
StepF(op, c, k) == LET r == Apply(Kind, st, op, FuelWith(c, k)) IN
             /\ r.out # "ok" /\ r.fuel[c] = 0
             /\ st' = r.st /\ status' = (IF r.out = "ub" THEN "ub" ELSE "ok")
             /\ hist' = <<[op |-> op, fault |-> [class |-> c, k |-> k]]>> /\ faults' = 1 /\ after' = 0
IndNext == /\ hist = <<>>
           /\ \/ \E op \in Alphabet : StepC(op)
              \/ \E op \in Alphabet, c \in Classes, k \in 0..MaxK : StepF(op, c, k)
=============================================================================
