------------------------------ MODULE MCFault ------------------------------
(***************************************************************************)
(* Crash-point model (property C10).                                       *)
(*                                                                         *)
(* Every operation of the alphabet may be run with a fuel record in which  *)
(* ONE class of user callback (Ord::cmp, a hash-map lookup, a closure) has *)
(* a finite countdown k: the (k+1)-th callback of that class unwinds and   *)
(* the operator returns the store EXACTLY as the code leaves it at that    *)
(* point (out = "panic").  The caller catches the panic and keeps using    *)
(* the queue.  iter_mut / drain guards may be leaked.                      *)
(*                                                                         *)
(* All operators are total on inconsistent stores and classify every       *)
(* access: a failed CHECKED access is a safe panic, a failed UNCHECKED     *)
(* access (get_unchecked..) is undefined behaviour.                        *)
(*                                                                         *)
(*   NoUB      no continuation performs an unchecked out-of-bounds access  *)
(*   SafeRep   heap and qp stay mutually inverse bijections of 0..size-1   *)
(*             (the map may be shorter after a panicking retain predicate);*)
(*             this is the representation predicate that makes NoUB        *)
(*             inductive                                                   *)
(* Counterexamples to NoUB are schedules: they are replayed on the real    *)
(* code, where std's unsafe-precondition checks turn the access into an    *)
(* abort.                                                                  *)
(***************************************************************************)
EXTENDS Ops, Json

CONSTANTS Items, MaxP, Kind,
          MaxFaults,   \* faults per history
          MaxK,        \* crash-point indices 0..MaxK
          MaxAfter,    \* operations after the first fault
          MaxSize      \* pushes of new items are limited to stores below this size

VARIABLES st, hist, faults, after, status
vars == <<st, hist, faults, after, status>>

Prios == 0..MaxP
EmptyFn == [x \in {} |-> 0]
PopOps == IF Kind = "pq" THEN {"pop"} ELSE {"pop_min", "pop_max"}
PopIfOps == IF Kind = "pq" THEN {"pop_if"} ELSE {"pop_min_if", "pop_max_if"}

Alphabet ==
  [op : {"push", "push_increase", "change_priority", "change_priority_by"}, k : Items, r : Prios]
  \cup [op : {"remove"}, k : Items]
  \cup [op : PopOps]
  \cup [op : PopIfOps, yes : BOOLEAN, set : {<<>>, <<0>>, <<MaxP>>}]
  \cup [op : {"retain_mut"}, keep : {Items, Items \ {CHOOSE x \in Items : TRUE}}, set : {EmptyFn}]
  \cup [op : {"iter_mut"}, n : {Cardinality(Items)}, set : {EmptyFn}, forget : BOOLEAN]
  \cup [op : {"extend"}, pairs : {<< <<k, p>> >> : k \in Items, p \in Prios}, hint : {<<>>}]
  \cup [op : {"clear"}]

Classes == {"cmp", "look", "cb"}
FuelWith(c, k) == [Inf EXCEPT ![c] = k]

Init == st = Empty /\ hist = <<>> /\ faults = 0 /\ after = 0 /\ status = "ok"

Budget == status = "ok" /\ (faults = 0 \/ after < MaxAfter)
Grows(op) == op.op \in {"push", "push_increase", "extend"} /\ st.size >= MaxSize

Clean(op) ==
  LET r == Apply(Kind, st, op, Inf) IN
  /\ Budget /\ ~Grows(op)
  /\ st' = r.st
  /\ status' = (IF r.out = "ub" THEN "ub" ELSE "ok")
  /\ hist' = Append(hist, op)
  /\ faults' = faults
  /\ after' = (IF faults > 0 THEN after + 1 ELSE 0)

Faulty(op, c, k) ==
  LET r == Apply(Kind, st, op, FuelWith(c, k)) IN
  /\ Budget /\ ~Grows(op) /\ faults < MaxFaults
  /\ r.out # "ok" /\ r.fuel[c] = 0            \* the injected fault fired (or UB was reached before it)
  /\ st' = r.st
  /\ status' = (IF r.out = "ub" THEN "ub" ELSE "ok")
  /\ hist' = Append(hist, [op |-> op, fault |-> [class |-> c, k |-> k]])
  /\ faults' = faults + 1
  /\ after' = (IF faults > 0 THEN after + 1 ELSE 0)

Next == \/ \E op \in Alphabet : Clean(op)
        \/ \E op \in Alphabet, c \in Classes, k \in 0..MaxK : Faulty(op, c, k)

\* ------------------------------------------------------------------ properties
NoUB == status # "ub"
SafeRep ==
  status = "ub" \/
  /\ Len(st.heap) = st.size /\ Len(st.qp) = st.size
  /\ \A p \in 1..st.size : st.heap[p] \in 0..(st.size-1) /\ st.qp[st.heap[p]+1] = p-1
  /\ Len(st.keys) <= st.size /\ Len(st.keys) = Len(st.pri)

View == <<st, faults, after, status>>
EmitUB == (status = "ub") => PrintT(<<"UBSCHEDULE", ToJson([kind |-> Kind, hist |-> hist])>>)
=============================================================================
