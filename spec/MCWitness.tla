----------------------------- MODULE MCWitness -----------------------------
(***************************************************************************)
(* Counterexample-guided witness search.                                   *)
(*                                                                         *)
(* When a recorded snapshot of the real queue breaks the heap order        *)
(* without any observable misbehaviour yet, that alone is not an alarm     *)
(* (DESIGN 3.6).  This module starts TLC FROM that recorded concrete state *)
(* and searches, breadth first over the core alphabet, for the shortest    *)
(* continuation after which a peek reports a non-extreme element (or an    *)
(* operator reports a failed access).  The continuation is printed as a    *)
(* WITNESS line, executed on the real code and judged by the trace         *)
(* specification; only that observation counts.                            *)
(*   WSTATE=<file with one JSON line {keys, pri, heap, qp, size}>          *)
(***************************************************************************)
EXTENDS Ops, Json, IOUtils

CONSTANTS Kind, MaxDepth, ExtraPrios

Start == LET s == ndJsonDeserialize(IOEnv.WSTATE)[1] IN
         [keys |-> s.keys, pri |-> s.pri, heap |-> s.heap, qp |-> s.qp, size |-> s.size]

VARIABLES st, hist, found
vars == <<st, hist, found>>

Items == KeySet(Start) \cup {"zz"}
ValuesOf(s) == {s[i] : i \in 1..Len(s)}
Lo == IF Start.pri = <<>> THEN 0 ELSE CHOOSE x \in ValuesOf(Start.pri) : \A y \in ValuesOf(Start.pri) : x <= y
Hi == IF Start.pri = <<>> THEN 0 ELSE CHOOSE x \in ValuesOf(Start.pri) : \A y \in ValuesOf(Start.pri) : x >= y
Prios == (Lo - ExtraPrios)..(Hi + ExtraPrios)

PopOps == IF Kind = "pq" THEN {"pop"} ELSE {"pop_min", "pop_max"}
Alphabet == [op : {"push", "change_priority"}, k : Items, r : Prios]
            \cup [op : {"remove"}, k : Items] \cup [op : PopOps]

PeekBad(s) ==
  LET a == AbsOf(s) IN
  IF Kind = "pq" THEN F_ext(a, PeekOf(Kind, s, TRUE), TRUE, "peek") # {}
  ELSE F_ext(a, PeekOf(Kind, s, TRUE), TRUE, "peek") # {} \/ F_ext(a, PeekOf(Kind, s, FALSE), FALSE, "peek") # {}

Init == st = Start /\ hist = <<>> /\ found = PeekBad(Start)
Next == /\ ~found /\ Len(hist) < MaxDepth
        /\ \E op \in Alphabet :
             LET r == Apply(Kind, st, op, Inf) IN
             /\ st' = r.st
             /\ hist' = Append(hist, op)
             /\ found' = (r.out # "ok" \/ (r.out = "ok" /\ WF(r.st) /\ PeekBad(r.st)))

View == <<st, found>>
NoWitness == found => (PrintT(<<"WITNESS", ToJson(hist)>>) /\ FALSE)
=============================================================================
