---------------------------- MODULE MCInductive ----------------------------
(***************************************************************************)
(* Inductive step.  MCQueue explores the REACHABLE states of a small       *)
(* universe.  Here the initial states are ALL well-formed, correctly       *)
(* ordered stores of up to Cardinality(Items) elements - every pair of     *)
(* mutually inverse tables with every priority assignment that satisfies   *)
(* the heap order, reachable or not - and exactly ONE step of every        *)
(* operation of the alphabet is taken from each.  The invariants of        *)
(* MCQueue (WFInv, OrdInv, Refines incl. cost, PeekInv) must hold in every *)
(* successor: WF /\ Ord is inductive, and every unchecked access of the    *)
(* transcription has its precondition in every well-formed state, not only *)
(* in the states some history happens to reach.                            *)
(* (By the item-renaming symmetry the keys of a store of m elements are    *)
(* taken to be the first m items in a fixed order.)                        *)
(***************************************************************************)
EXTENDS MCQueue

ItemSeq == SetToSeq(Items)
Perms(m) == {p \in [1..m -> 0..(m-1)] : \A i, j \in 1..m : i # j => p[i] # p[j]}
InvPerm(p, m) == [i \in 1..m |-> (CHOOSE k \in 1..m : p[k] = i - 1) - 1]
StoresOf(m) ==
  {[keys |-> SubSeq(ItemSeq, 1, m), pri |-> pr, heap |-> h, qp |-> InvPerm(h, m), size |-> m] :
     pr \in [1..m -> Prios], h \in Perms(m)}
Ordered(s) == IF Kind = "pq" THEN PqOrd(s) ELSE DqOrd(s)
AllStores == UNION {{s \in StoresOf(m) : Ordered(s)} : m \in 0..Cardinality(Items)}

IndInit == st \in AllStores /\ hist = <<>> /\ bad = {}
IndNext == hist = <<>> /\ \E op \in StateOps : Step(op)
=============================================================================
