------------------------------ MODULE MCQueue ------------------------------
(***************************************************************************)
(* Exhaustive model: every reachable concrete state (pri, heap, qp) of one *)
(* queue kind over a small universe, under the whole state-changing        *)
(* alphabet.  Checked in every state / on every transition:                *)
(*   WFInv      the representation invariant all unchecked accesses trust   *)
(*   OrdInv     heap order (max-heap resp. min-max heap)                    *)
(*   Refines    every transition satisfies the abstract judgement           *)
(*              (Abstract!Judge: the predicate that also judges the code)   *)
(*              and stays within the comparison bound of Cost.tla (C05)     *)
(*   NoBadOut   no operator reports a failed checked ("panic") or           *)
(*              unchecked ("ub") access from a reachable state              *)
(* It also EMITS, for every distinct state, one history that reaches it     *)
(* (a REPLAY line) - the covering set replayed into the real code.          *)
(* VIEW drops the item names: an exact symmetry reduction at no cost.       *)
(***************************************************************************)
EXTENDS Ops, Json, Cost

CONSTANTS Items,      \* set of keys (strings)
          MaxP,       \* priorities are 0..MaxP
          Kind,       \* "pq" | "dpq"
          Emit,       \* TRUE: print REPLAY / PROBES lines
          Alphabet    \* "full" | "core" (keyed updates, remove, pops: for the deeper universes)

VARIABLES st, hist, bad
vars == <<st, hist, bad>>

Prios == 0..MaxP
EmptyFn == [x \in {} |-> 0]
OneFn(k, v) == [x \in {k} |-> v]

PopOps == IF Kind = "pq" THEN {"pop"} ELSE {"pop_min", "pop_max"}
PopIfOps == IF Kind = "pq" THEN {"pop_if"} ELSE {"pop_min_if", "pop_max_if"}

\* ------------------------------------------------------------------ the alphabet
KeyedOps == [op : {"push", "push_increase", "push_decrease", "change_priority", "change_priority_by"},
             k : Items, r : Prios]
RemoveOps == [op : {"remove"}, k : Items]
PlainPops == [op : PopOps]
CondPops  == [op : PopIfOps, yes : BOOLEAN, set : {<<>>} \cup {<<p>> : p \in Prios}]
\* (the sets built from SUBSET Items take the item set as a parameter so that TLC does not enumerate them
\* eagerly as constants when the core alphabet is used over a large universe)
RetainOps(I) == [op : {"retain"}, keep : SUBSET I, set : {EmptyFn}]
RetainMutOps(I) == [op : {"retain_mut"}, keep : SUBSET I,
                    set : {EmptyFn} \cup {OneFn(k, p) : k \in I, p \in Prios}]
\* (nb: elements taken from the back - only DoublePriorityQueue's IterMut is double ended)
IterMutOps == [op : {"iter_mut"}, n : 0..Cardinality(Items), nb : IF Kind = "dpq" THEN 0..2 ELSE {0},
               bf : IF Kind = "dpq" THEN BOOLEAN ELSE {FALSE},
               set : {EmptyFn} \cup {OneFn(k, p) : k \in Items, p \in Prios}, forget : {FALSE}]
PairsUpTo2(I) == {<<>>} \cup {<< <<k, p>> >> : k \in I, p \in Prios}
                 \cup {<< <<k1, p1>>, <<k2, p2>> >> : k1 \in I, p1 \in Prios, k2 \in I, p2 \in Prios}
ExtendOps(I) == [op : {"extend"}, pairs : PairsUpTo2(I), hint : {<<>>, <<0, -1>>}]
MiscOps == [op : {"clear"}] \cup [op : {"drain"}, n : 0..Cardinality(Items)]

\* creation of a queue from a pair sequence (only as the first step of a history)
PairsUpTo3(I) == PairsUpTo2(I) \cup {<< <<k1, p1>>, <<k2, p2>>, <<k3, p3>> >> :
                                 k1 \in I, p1 \in Prios, k2 \in I, p2 \in Prios, k3 \in I, p3 \in Prios}
CreateOps(I) == [op : {"from_vec", "from_iter", "de"}, pairs : PairsUpTo3(I), q : {0}]

CoreOps == KeyedOps \cup RemoveOps \cup PlainPops
FullOps(I) == KeyedOps \cup RemoveOps \cup PlainPops \cup CondPops \cup RetainOps(I) \cup RetainMutOps(I)
              \cup IterMutOps \cup ExtendOps(I) \cup MiscOps
StateOpsOf(I) == IF Alphabet = "core" THEN CoreOps ELSE FullOps(I)
StateOps == StateOpsOf(Items)

\* read-only probes (executed by the harness from every state; no model transition)
ReadOps == [op : IF Kind = "pq" THEN {"peek"} ELSE {"peek_min", "peek_max"}]
           \cup [op : IF Kind = "pq" THEN {"peek_mut"} ELSE {"peek_min_mut", "peek_max_mut"}, wp : {0, 1}]
           \cup [op : {"get", "get_priority"}, k : Items, b : {0, 1}]
           \cup [op : {"get_mut"}, k : Items, b : {0, 1}, wp : {1}]
           \cup [op : {"debug"}]

\* ------------------------------------------------------------------ behaviour
Init == st = Empty /\ hist = <<>> /\ bad = {}

Refine(op, r) == LET j == Judge(AbsOf(st), EventOf(Kind, st, op, r)) IN
                 j.f \cup (IF r.out = "ok" /\ AbsOf(r.st) # j.n THEN {"contents"} ELSE {})

\* comparisons used by the modelled algorithm versus the bound of Cost.tla (C05)
CostFails(op, r) == LET n == IF r.st.size > st.size THEN r.st.size ELSE st.size IN
                    IF Within(Kind, op.op, n, INF - r.fuel.cmp) THEN {} ELSE {"cost"}

Step(op) == LET r == Apply(Kind, st, op, Inf) IN
            /\ st' = r.st
            /\ hist' = Append(hist, op)
            /\ bad' = (IF r.out # "ok" THEN {<<op.op, r.out>>} ELSE {})
                      \cup {<<op.op, t>> : t \in Refine(op, r) \cup CostFails(op, r)}

\* judgement of a creation: the same predicates the trace specification applies (StepCreate)
CreateFails(op, r) ==
  LET ev == [pairs |-> [i \in 1..Len(op.pairs) |-> [k |-> op.pairs[i][1], pay |-> 0, r |-> op.pairs[i][2], t |-> 0]]]
      res == AbsOf(r.st) IN
  IF r.out # "ok" THEN {r.out}
  ELSE CASE op.op = "from_vec"  -> T(res = N_fromvec(ev), "bulk_contents")
         [] op.op = "from_iter" -> T(OK_fromiter(ev, res), "bulk_contents")
         [] op.op = "de"        -> T(OK_de(ev, res), "de_contents")
Create(op) == LET r == Apply(Kind, Empty, op, Inf) IN
              /\ st = Empty /\ hist = <<>>
              /\ st' = r.st
              /\ hist' = <<op>>
              /\ bad' = {<<op.op, t>> : t \in CreateFails(op, r)}

Next == (\E op \in StateOps : Step(op)) \/ (Alphabet = "full" /\ \E op \in CreateOps(Items) : Create(op))

\* ------------------------------------------------------------------ properties
WFInv  == WF(st)
OrdInv == IF Kind = "pq" THEN PqOrd(st) ELSE DqOrd(st)
Refines == bad = {}
\* peeks agree with the abstract layer in every state
PeekInv == LET a == AbsOf(st) IN
           IF Kind = "pq" THEN F_ext(a, PeekOf(Kind, st, TRUE), TRUE, "peek") = {}
           ELSE /\ F_ext(a, PeekOf(Kind, st, TRUE), TRUE, "peek") = {}
                /\ F_ext(a, PeekOf(Kind, st, FALSE), FALSE, "peek") = {}

View == <<st.pri, st.heap, st.qp, bad>>

\* ------------------------------------------------------------------ emission
EmitInv == Emit => PrintT(<<"REPLAY", ToJson([kind |-> Kind, steps |-> hist])>>)
EmitProbes(I) == PrintT(<<"PROBES", ToJson(StateOpsOf(I) \cup ReadOps)>>)
ASSUME Emit => EmitProbes(Items)
=============================================================================
