------------------------------- MODULE MCSim -------------------------------
(***************************************************************************)
(* Long behaviours over universes the exhaustive search cannot reach:      *)
(* `tlc -simulate` on MCQueue with 12-32 items (core alphabet).  TLC       *)
(* checks WFInv / OrdInv / Refines / PeekInv along every simulated         *)
(* behaviour (the DESIGN, at sizes where sifting crosses several levels)   *)
(* and emits each behaviour of length SimDepth as a REPLAY line; the       *)
(* behaviours are then replayed on the real code and validated like any    *)
(* other trace (the CODE at those sizes).                                  *)
(***************************************************************************)
EXTENDS MCQueue
CONSTANT SimDepth
EmitSim == (Len(hist) = SimDepth) => PrintT(<<"REPLAY", ToJson([kind |-> Kind, steps |-> hist])>>)
\* behaviours stop at SimDepth
SimNext == Len(hist) < SimDepth /\ Next
=============================================================================
