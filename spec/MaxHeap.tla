------------------------------ MODULE MaxHeap ------------------------------
(***************************************************************************)
(* Implementation-shaped transcription of src/priority_queue/mod.rs        *)
(* (PriorityQueue: binary max-heap over the Store).  One operator per Rust *)
(* function, same control flow, same order of table writes.  See Store.tla *)
(* for the outcome records and the fuel convention.                        *)
(***************************************************************************)
EXTENDS Store

\* ------------------------------------------------------------------ heapify (sift down)
\* mod.rs `fn heapify`: len() is the size counter, accesses are get_priority_from_position
RECURSIVE PqSiftDown(_,_,_)
PqSiftDown(s, i, f) ==
  LET n == s.size  l == 2*i+1  r == 2*i+2 IN
  IF PrioOut(s, i) # "ok" THEN R(s, PrioOut(s, i), f, <<>>) ELSE
  IF l >= n THEN Ok(s, f, <<>>) ELSE
  IF PrioOut(s, l) # "ok" THEN R(s, PrioOut(s, l), f, <<>>) ELSE
  IF f.cmp = 0 THEN Panic(s, f) ELSE
  LET f1  == TickCmp(f)
      lg1 == IF PrioAt(s, l) > PrioAt(s, i) THEN l ELSE i IN
  IF r < n /\ PrioOut(s, r) # "ok" THEN R(s, PrioOut(s, r), f1, <<>>) ELSE
  IF r < n /\ f1.cmp = 0 THEN Panic(s, f1) ELSE
  LET f2 == IF r < n THEN TickCmp(f1) ELSE f1
      lg == IF r < n /\ PrioAt(s, r) > PrioAt(s, lg1) THEN r ELSE lg1 IN
  IF lg = i THEN Ok(s, f2, <<>>)
  ELSE Then(Swap(s, i, lg, f2), LAMBDA x : PqSiftDown(x.st, lg, x.fuel))
PqHeapify(s, i, f) == IF s.size <= 1 THEN Ok(s, f, <<>>) ELSE PqSiftDown(s, i, f)

\* ------------------------------------------------------------------ bubble_up (moving hole)
\* ret = <<final position>>
RECURSIVE PqBubbleLoop(_,_,_,_)
PqBubbleLoop(s, pos, idx, f) ==
  LET final == IF ~In(s.heap, pos) \/ ~In(s.qp, idx) THEN UB(s, f)
               ELSE Ok([s EXCEPT !.heap = Put(@, pos, idx), !.qp = Put(@, idx, pos)], f, <<pos>>) IN
  IF pos = 0 THEN final ELSE
  LET par == Par(pos) IN
  IF PrioOut(s, par) # "ok" THEN R(s, PrioOut(s, par), f, <<>>) ELSE
  IF f.cmp = 0 THEN Panic(s, f) ELSE
  LET f1 == TickCmp(f) IN
  IF PrioAt(s, par) < At(s.pri, idx)
  THEN LET pi == At(s.heap, par) IN
       IF ~In(s.heap, pos) \/ ~In(s.qp, pi) THEN UB(s, f1)
       ELSE IF ~SwapBubble
            THEN PqBubbleLoop([s EXCEPT !.heap = Put(@, pos, pi), !.qp = Put(@, pi, pos)], par, idx, f1)   \* moving hole
            ELSE IF ~In(s.qp, idx) THEN UB([s EXCEPT !.heap = Put(@, pos, pi), !.qp = Put(@, pi, pos)], f1)
            ELSE PqBubbleLoop([s EXCEPT !.heap = Put(Put(@, pos, pi), par, idx),
                                        !.qp = Put(Put(@, pi, pos), idx, par)], par, idx, f1)                 \* full swap
  ELSE IF ~In(s.heap, pos) \/ ~In(s.qp, idx) THEN UB(s, f1)
       ELSE Ok([s EXCEPT !.heap = Put(@, pos, idx), !.qp = Put(@, idx, pos)], f1, <<pos>>)
PqBubbleUp(s, pos, idx, f) ==
  IF ~In(s.pri, idx) THEN Panic(s, f)                                \* map.get_index(..).unwrap()
  ELSE PqBubbleLoop(s, pos, idx, f)

\* ------------------------------------------------------------------ up_heapify
PqUpHeapify(s, i, f) ==
  IF ~In(s.heap, i) THEN UB(s, f) ELSE                               \* heap.get_unchecked(i)
  Then(PqBubbleUp(s, i, At(s.heap, i), f), LAMBDA x : PqHeapify(x.st, x.ret[1], x.fuel))

\* ------------------------------------------------------------------ heap_build
RECURSIVE PqBuildFrom(_,_,_)
PqBuildFrom(s, i, f) ==
  Then(PqHeapify(s, i, f), LAMBDA x : IF i = 0 THEN x ELSE PqBuildFrom(x.st, i-1, x.fuel))
PqHeapBuild(s, f) == IF s.size = 0 THEN Ok(s, f, <<>>) ELSE PqBuildFrom(s, Par(s.size), f)

\* ================================================================== public operations
\* push: ret = <<>> (None) or <<old priority>>
PqPush(s, k, p, f) ==
  IF f.look = 0 THEN Panic(s, f) ELSE                                \* map.entry(item)
  LET f1 == TickLook(f) IN
  IF Has(s, k)
  THEN LET i  == IdxOf(s, k)
           s1 == [s EXCEPT !.pri = Put(@, i, p)] IN
       IF ~In(s.qp, i) THEN UB(s1, f1)
       ELSE SetRet(PqUpHeapify(s1, At(s.qp, i), f1), <<At(s.pri, i)>>)
  ELSE LET i  == s.size
           s1 == [s EXCEPT !.keys = Append(@, k), !.pri = Append(@, p),
                           !.qp = Append(@, i), !.heap = Append(@, i)] IN
       IF SwapBubble
       THEN SetRet(PqBubbleUp([s1 EXCEPT !.size = @ + 1], i, i, f1), <<>>)   \* size bumped before the sift
       ELSE Then(PqBubbleUp(s1, i, i, f1),
                 LAMBDA x : Ok([x.st EXCEPT !.size = @ + 1], x.fuel, <<>>))  \* 2.3.1: size bumped last

\* push_increase / push_decrease: get_priority (lookup), one comparison if present, then push.
\* ret = <<>> | <<old>> | <<p, 0>> when nothing was done (the offered priority comes back)
PqPushDir(s, k, p, up, f) ==
  IF f.look = 0 THEN Panic(s, f) ELSE
  LET f1 == TickLook(f) IN
  IF ~Has(s, k) THEN PqPush(s, k, p, f1) ELSE
  IF f1.cmp = 0 THEN Panic(s, f1) ELSE
  LET f2  == TickCmp(f1)
      cur == At(s.pri, IdxOf(s, k)) IN
  IF (up /\ p > cur) \/ (~up /\ p < cur) THEN PqPush(s, k, p, f2)
  ELSE Ok(s, f2, <<p, 0>>)
PqPushIncrease(s, k, p, f) == PqPushDir(s, k, p, TRUE, f)
PqPushDecrease(s, k, p, f) == PqPushDir(s, k, p, FALSE, f)

\* change_priority: ret = <<>> | <<old>>
PqChangePriority(s, k, p, f) ==
  Then(ChangePriority(s, k, p, f), LAMBDA x :
       IF x.ret = <<>> THEN x
       ELSE SetRet(PqUpHeapify(x.st, x.ret[2], x.fuel), <<x.ret[1]>>))
\* change_priority_by: ret = <<TRUE>> | <<FALSE>>
PqChangePriorityBy(s, k, newp, f) ==
  Then(ChangePriorityBy(s, k, newp, f), LAMBDA x :
       IF x.ret = <<>> THEN SetRet(x, <<FALSE>>)
       ELSE SetRet(PqUpHeapify(x.st, x.ret[1], x.fuel), <<TRUE>>))

\* remove: ret = <<>> | << <<key, pri>> >>
PqRemove(s, k, f) ==
  Then(StoreRemove(s, k, f), LAMBDA x :
       IF x.ret = <<>> THEN x
       ELSE LET pos == x.ret[3]  out == << <<x.ret[1], x.ret[2]>> >> IN
            IF pos < x.st.size THEN SetRet(PqUpHeapify(x.st, pos, x.fuel), out)
            ELSE SetRet(x, out))

\* pop
PqPop(s, f) ==
  IF s.size = 0 THEN Ok(s, f, <<>>) ELSE
  IF s.size = 1 THEN SwapRemove(s, 0, f) ELSE
  Then(SwapRemove(s, 0, f), LAMBDA x : SetRet(PqHeapify(x.st, 0, x.fuel), x.ret))

\* pop_if
PqPopIf(s, newp, yes, f) ==
  IF s.size = 0 THEN Ok(s, f, <<>>) ELSE
  IF s.size = 1 THEN SwapRemoveIf(s, 0, newp, yes, f) ELSE
  Then(SwapRemoveIf(s, 0, newp, yes, f), LAMBDA x : SetRet(PqHeapify(x.st, 0, x.fuel), x.ret))

\* peek: ret = <<>> | << <<key, pri>> >>   (heap.first() and map.get_index are checked)
PqPeek(s) == IF s.heap = <<>> \/ ~In(s.keys, s.heap[1]) THEN <<>>
             ELSE << <<At(s.keys, s.heap[1]), At(s.pri, s.heap[1])>> >>

\* retain / retain_mut
PqRetain(s, keep, wr, f) ==
  Then(StoreRetain(s, keep, wr, f), LAMBDA x : PqHeapBuild(x.st, x.fuel))

\* iter_mut: the first `n` slots are yielded in slot order and rewritten by `wr`, then heap_build on drop
\* (mem::forget: no rebuild)
PqIterMut(s, wr, forget, f) ==
  LET s1 == [s EXCEPT !.pri = [i \in 1..Len(s.pri) |-> IF (i-1) \in DOMAIN wr THEN wr[i-1] ELSE s.pri[i]]] IN
  IF forget THEN Ok(s1, f, <<>>) ELSE PqHeapBuild(s1, f)

\* append: st = [a, b]
PqAppend(a, b, f) ==
  Then(StoreAppend(a, b, f), LAMBDA x :
       LET h == PqHeapBuild(x.st.a, x.fuel) IN [h EXCEPT !.st = [a |-> h.st, b |-> x.st.b]])

\* From<Vec>, FromIterator, From<DoublePriorityQueue>
PqFromVec(pairs, f)  == Then(StoreFromVec(pairs, f),  LAMBDA x : PqHeapBuild(x.st, x.fuel))
PqFromIter(pairs, f) == Then(StoreFromIter(pairs, f), LAMBDA x : PqHeapBuild(x.st, x.fuel))
PqFromStore(s, f)    == PqHeapBuild(s, f)
PqDeserialize(pairs, f) == Then(StoreDeserialize(pairs, f), LAMBDA x : PqHeapBuild(x.st, x.fuel))

\* Extend: `rebuild` is the strategy chosen from the size hint (see BetterToRebuild)
RECURSIVE PqPushAll(_,_,_)
PqPushAll(s, pairs, f) ==
  IF pairs = <<>> THEN (IF f.cb = 0 THEN Panic(s, f) ELSE Ok(s, TickCb(f), <<>>)) ELSE
  IF f.cb = 0 THEN Panic(s, f) ELSE
  Then(PqPush(s, pairs[1][1], pairs[1][2], TickCb(f)), LAMBDA x : PqPushAll(x.st, Tail(pairs), x.fuel))
PqExtend(s, pairs, rebuild, f) ==
  IF rebuild THEN Then(StoreExtend(s, pairs, f), LAMBDA x : PqHeapBuild(x.st, x.fuel))
  ELSE PqPushAll(s, pairs, f)

\* mod.rs `better_to_rebuild` and the hint logic of `extend`; hint = <<lo, hi>> with hi = -1 for None
\* (saturating arithmetic since fix 56aceb1: with an upper bound near usize::MAX - hint code -9 - both
\* sides saturate and the strict comparison is false)
BetterToRebuild(len1, len2) == IF len1 <= 1 THEN FALSE ELSE 2 * (len1 + len2) < len2 * Log2(len1)
ExtendRebuilds(len, hint) ==
  IF hint[2] = -9 THEN FALSE ELSE
  IF hint[2] = -8 THEN Log2(len) >= 3 ELSE          \* 2 (len + h) < h log2(len) for h >> len
  IF hint[2] # -1 THEN BetterToRebuild(len, hint[2])
  ELSE IF hint[1] # 0 THEN BetterToRebuild(len, hint[1]) ELSE FALSE

\* into_sorted_vec / into_sorted_iter: repeated pop; ret = sequence of <<key, pri>>
RECURSIVE PqDrainSorted(_,_,_)
PqDrainSorted(s, acc, f) ==
  IF s.size = 0 THEN Ok(s, f, acc) ELSE
  Then(PqPop(s, f), LAMBDA x : IF x.ret = <<>> THEN Ok(x.st, x.fuel, acc)
                                 ELSE PqDrainSorted(x.st, Append(acc, x.ret[1]), x.fuel))

\* ------------------------------------------------------------------ order invariant
PqOrd(s) == \A p \in 1..(s.size-1) : PrioAt(s, Par(p)) >= PrioAt(s, p)
=============================================================================
