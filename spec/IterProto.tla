----------------------------- MODULE IterProto -----------------------------
(***************************************************************************)
(* The contract of the crate's iterators as seen through a recorded call   *)
(* sequence.  res is the sequence of call records the harness logs:        *)
(*   [c |-> 0, st, k, y |-> <<>> | <<element>>]            next            *)
(*   [c |-> 1, st |-> "done" | "na", k, y]                 next_back       *)
(*   [c |-> 2, st |-> "done" | "na", k, len |-> n]         len             *)
(*   [c |-> 3, st, k, lo |-> n, hi |-> <<>> | <<n>>]       size_hint       *)
(*   [c |-> 4, st, k, y]                                   nth(k)          *)
(*   [c |-> 5, st |-> "done" | "na", k, y]                 nth_back(k)     *)
(*   [c |-> 6, st, k, y]                                   last()   (consumes everything) *)
(*   [c |-> 7, st, k, len |-> n]                           count()  (consumes everything) *)
(*   [c |-> 8 | 9 | 10, st, k, y]      fold / rfold / for_each, observed   *)
(*        element by element: one record per element the closure was given *)
(*        and an end record with y = <<>>.  Internal iteration IS repeated *)
(*        next (8, 10) resp. next_back (9) - NormCalls maps it to that, so *)
(*        an override of fold / rfold / for_each must agree with stepping. *)
(*   [c |-> 20, st, k |-> m, m |-> name, got, want]   a provided method of *)
(*        Iterator / DoubleEndedIterator / ExactSizeIterator (min, max,    *)
(*        min_by_key, .., position, find, any, all, partition, collect,    *)
(*        rfind, rposition, ..) called on the iterator itself (consuming): *)
(*        `got` is what it returned, `want` what std's DEFAULT             *)
(*        implementation returns on a stepping replica of the same         *)
(*        iterator (a wrapper forwarding next / next_back / size_hint      *)
(*        only).  The contract of a provided method IS its default         *)
(*        implementation over next / next_back: got = want.                *)
(*   st = "started": the call did not return (it panicked)                 *)
(* S is the set of elements the underlying queue held.  The number of      *)
(* elements still to be yielded is accounted forward: it starts at the     *)
(* total the (adapted) iterator owes - ExpectedTotal - and every call      *)
(* consumes what the std contract says it consumes.                        *)
(***************************************************************************)
EXTENDS Abstract

\* internal iteration as the equivalent stepping
NormCalls(res) == [i \in 1..Len(res) |->
                     IF res[i].c \in {8, 10} THEN [res[i] EXCEPT !.c = 0]
                     ELSE IF res[i].c = 9 THEN [res[i] EXCEPT !.c = 1] ELSE res[i]]

Yielding(x) == x.c \in {0, 1, 4, 5, 6} /\ x.st = "done"
Yielded(x)  == Yielding(x) /\ x.y # <<>>
YieldIdx(res) == {i \in 1..Len(res) : Yielded(res[i])}
DeclaresExact(res) == \E i \in 1..Len(res) : res[i].c = 2 /\ res[i].st = "done"

\* number of elements the adaptor composition must yield in total from n elements
Min2(a, b) == IF a < b THEN a ELSE b
ExpectedTotal(adapt, k, n) ==
  CASE adapt \in {"take", "rev_take", "take_rev"} -> Min2(k, n)
    [] adapt \in {"skip", "skip_rev"} -> IF n > k THEN n - k ELSE 0
    [] adapt = "step_by" -> LET s == IF k < 1 THEN 1 ELSE k IN (n + s - 1) \div s
    [] OTHER -> n

\* what a plain forward traversal of the adaptor composition yields, given what a plain forward traversal of
\* the adapted iterator yields
RevSeq(s) == [i \in 1..Len(s) |-> s[Len(s) - i + 1]]
AdaptRef(adapt, k, ref) ==
  LET n == Len(ref)
      m == Min2(k, n)
      s == IF k < 1 THEN 1 ELSE k IN
  CASE adapt = "rev"      -> RevSeq(ref)
    [] adapt = "take"     -> SubSeq(ref, 1, m)
    [] adapt = "skip"     -> SubSeq(ref, m + 1, n)
    [] adapt = "step_by"  -> [i \in 1..((n + s - 1) \div s) |-> ref[(i - 1) * s + 1]]
    [] adapt = "rev_take" -> SubSeq(RevSeq(ref), 1, m)
    [] adapt = "take_rev" -> RevSeq(SubSeq(ref, 1, m))
    [] adapt = "skip_rev" -> RevSeq(SubSeq(ref, m + 1, n))
    [] OTHER              -> ref

\* elements a completed call takes out of the iterator when `rem` were left
Consumes(x, rem) ==
  IF x.st # "done" THEN 0
  ELSE CASE x.c \in {0, 1} -> IF rem > 0 THEN 1 ELSE 0
         [] x.c \in {4, 5} -> Min2(x.k + 1, rem)
         [] x.c \in {6, 7, 20} -> rem
         [] OTHER          -> 0
\* RemBefore(res, total)[i] = elements still owed before call i
RECURSIVE RemSeq(_,_,_,_)
RemSeq(res, i, rem, acc) ==
  IF i > Len(res) THEN acc ELSE RemSeq(res, i + 1, rem - Consumes(res[i], rem), Append(acc, rem))

\* tags for one recorded call sequence
ProtoFails(res, S, adapt, k, panicked) ==
  LET ys  == YieldIdx(res)
      n   == Cardinality(S)
      rb  == RemSeq(res, 1, ExpectedTotal(adapt, k, n), <<>>) IN
  (IF panicked \/ \E i \in 1..Len(res) : res[i].st = "started" THEN {"iter_panic"} ELSE {})
  \* no element twice (same key, or - for borrowing iterators - same address)
  \cup T(\A i, j \in ys : i # j => /\ res[i].y[1].k # res[j].y[1].k
                                   /\ (res[i].y[1].ai = 0 \/ res[i].y[1].ai # res[j].y[1].ai)
                                   /\ (res[i].y[1].ap = 0 \/ res[i].y[1].ap # res[j].y[1].ap), "iter_dup")
  \* only stored elements, as stored
  \cup T(\A i \in ys : Proj4(res[i].y[1]) \in S, "iter_unknown")
  \* a yielding call returns an element exactly when it is owed one:
  \*   next / next_back / last: iff something is left;  nth(k) / nth_back(k): iff more than k are left
  \cup T(\A i \in 1..Len(res) : Yielding(res[i]) =>
           LET owed == IF res[i].c \in {4, 5} THEN rb[i] > res[i].k ELSE rb[i] > 0 IN
           (res[i].y # <<>>) = owed, "iter_missing")
  \* None is final for the single-step calls (FusedIterator)
  \cup T(\A i \in 1..Len(res) : (res[i].c \in {0, 1} /\ res[i].st = "done" /\ res[i].y = <<>>)
                                 => \A j \in (i+1)..Len(res) : ~Yielded(res[j]), "iter_after_none")
  \* a provided method returns what its default implementation returns on the stepping replica
  \cup T(\A i \in 1..Len(res) : (res[i].c = 20 /\ res[i].st = "done" /\ "want" \in DOMAIN res[i]) => res[i].got = res[i].want,
         "iter_provided")
  \* len, count and (where an exact size is declared) size_hint report exactly what is still owed
  \cup T(\A i \in 1..Len(res) : (res[i].c \in {2, 7} /\ res[i].st = "done") => res[i].len = rb[i], "iter_len")
  \cup T(\A i \in 1..Len(res) : (res[i].c = 3 /\ res[i].st = "done") =>
           IF DeclaresExact(res)
           THEN res[i].lo = rb[i] /\ res[i].hi = <<rb[i]>>
           ELSE res[i].lo <= rb[i] /\ (res[i].hi = <<>> \/ rb[i] <= res[i].hi[1]), "iter_hint")

\* Positional semantics against a reference order `ref` (sequence of keys: what a plain forward traversal of
\* the same iterator kind yields - taken from the same queue for the borrowing iterators, from a clone for the
\* consuming ones): next = the front element, next_back = the back element, nth(k) / nth_back(k) skip k
\* elements at their end, last() = the back element.  PosWalk returns the tag "iter_position" when a call
\* yields another element than the DoubleEndedIterator contract dictates.
RECURSIVE PosWalk(_,_,_,_,_)
PosWalk(res, ref, i, f, b) ==          \* f, b: 0-based cursors into ref: the remaining range is f..b-1
  IF i > Len(res) THEN {} ELSE
  LET x == res[i] IN
  IF x.st # "done" \/ x.c \in {2, 3, 7, 20} THEN PosWalk(res, ref, i+1, IF x.st = "done" /\ x.c \in {7, 20} THEN b ELSE f, b) ELSE
  LET want == CASE x.c = 0 -> IF f < b THEN <<ref[f+1]>> ELSE <<>>
                [] x.c = 1 -> IF f < b THEN <<ref[b]>> ELSE <<>>
                [] x.c = 4 -> IF f + x.k < b THEN <<ref[f+x.k+1]>> ELSE <<>>
                [] x.c = 5 -> IF b - x.k > f THEN <<ref[b-x.k]>> ELSE <<>>
                [] x.c = 6 -> IF f < b THEN <<ref[b]>> ELSE <<>>
      f2 == CASE x.c = 0 -> IF f < b THEN f + 1 ELSE f
               [] x.c = 4 -> IF f + x.k < b THEN f + x.k + 1 ELSE b
               [] x.c = 6 -> b
               [] OTHER -> f
      b2 == CASE x.c = 1 -> IF f < b THEN b - 1 ELSE b
               [] x.c = 5 -> IF b - x.k > f THEN b - x.k - 1 ELSE f
               [] OTHER -> b
      got == IF x.y = <<>> THEN <<>> ELSE <<x.y[1].k>> IN
  T(got = want, "iter_position") \cup PosWalk(res, ref, i+1, f2, b2)

\* sorted iterators: every step yields an extreme of what remains (PriorityQueue: maximum first;
\* DoublePriorityQueue: front = minimum, back = maximum); last() yields the opposite extreme.  Only for
\* sequences without nth / nth_back (whose skipped elements are not observed).
RECURSIVE OrderWalk(_,_,_,_)
OrderWalk(res, i, rem, kind) ==
  IF i > Len(res) THEN {} ELSE
  IF \E j \in 1..Len(res) : res[j].c \in {4, 5} THEN {} ELSE
  IF ~Yielded(res[i]) \/ Proj4(res[i].y[1]) \notin rem THEN OrderWalk(res, i+1, rem, kind) ELSE
  LET y == Proj4(res[i].y[1])
      fromMax == IF res[i].c = 6 THEN kind # "pq" ELSE (kind = "pq" \/ res[i].c = 1)
      fromMaxL == IF res[i].c = 6 THEN ~(kind = "pq") ELSE fromMax IN
  \* (for last() the failure is a breach of the Iterator contract itself: last() must be what stepping yields last)
  T(IF fromMaxL THEN \A x \in rem : x.r <= y.r ELSE \A x \in rem : x.r >= y.r,
    IF res[i].c = 6 THEN "iter_last" ELSE "iter_order")
  \cup OrderWalk(res, i+1, IF res[i].c = 6 THEN {} ELSE rem \ {y}, kind)
=============================================================================
