----------------------------- MODULE IterProto -----------------------------
(***************************************************************************)
(* The contract of the crate's iterators as seen through a recorded call   *)
(* sequence.  res is the sequence of call records the harness logs:        *)
(*   [c |-> 0, st |-> "done", y |-> <<>> | <<element>>]      next          *)
(*   [c |-> 1, st |-> "done" | "na", y |-> ...]              next_back     *)
(*   [c |-> 2, st |-> "done" | "na", len |-> n]              len           *)
(*   [c |-> 3, st |-> "done", lo |-> n, hi |-> <<>> | <<n>>] size_hint     *)
(*   st = "started": the call did not return (it panicked)                 *)
(* S is the set of elements the underlying queue held, n0 = |S|.           *)
(* The harness always ends a sequence with enough `next` calls to exhaust  *)
(* the iterator, so "the number of elements still to be yielded" after a   *)
(* call is simply the number of elements yielded by the later calls.       *)
(***************************************************************************)
EXTENDS Abstract

IsYieldCall(x) == x.c \in {0, 1} /\ x.st = "done"
Yielded(x) == IsYieldCall(x) /\ x.y # <<>>
YieldIdx(res) == {i \in 1..Len(res) : Yielded(res[i])}
Remaining(res, i) == Cardinality({j \in YieldIdx(res) : j > i})
Exhausted(res) == \E i \in 1..Len(res) : IsYieldCall(res[i]) /\ res[i].y = <<>>
                                         /\ \A j \in (i+1)..Len(res) : ~Yielded(res[j])
DeclaresExact(res) == \E i \in 1..Len(res) : res[i].c = 2 /\ res[i].st = "done"

\* number of elements the adaptor composition must yield in total from n elements
Min2(a, b) == IF a < b THEN a ELSE b
ExpectedTotal(adapt, k, n) ==
  CASE adapt \in {"take", "rev_take", "take_rev"} -> Min2(k, n)
    [] adapt \in {"skip", "skip_rev"} -> IF n > k THEN n - k ELSE 0
    [] adapt = "step_by" -> LET s == IF k < 1 THEN 1 ELSE k IN (n + s - 1) \div s
    [] OTHER -> n

Id(y) == IF y.ai # 0 THEN <<"addr", y.ai>> ELSE <<"key", y.k>>

\* tags for one recorded call sequence
ProtoFails(res, S, adapt, k, panicked) ==
  LET ys == YieldIdx(res)
      n  == Cardinality(S) IN
  (IF panicked \/ \E i \in 1..Len(res) : res[i].st = "started" THEN {"iter_panic"} ELSE {})
  \* no element twice (same key, or - for borrowing iterators - same address)
  \cup T(\A i, j \in ys : i # j => /\ res[i].y[1].k # res[j].y[1].k
                                   /\ (res[i].y[1].ai = 0 \/ res[i].y[1].ai # res[j].y[1].ai)
                                   /\ (res[i].y[1].ap = 0 \/ res[i].y[1].ap # res[j].y[1].ap), "iter_dup")
  \* only stored elements, as stored
  \cup T(\A i \in ys : Proj4(res[i].y[1]) \in S, "iter_unknown")
  \* None is final
  \cup T(\A i \in 1..Len(res) : (IsYieldCall(res[i]) /\ res[i].y = <<>>) => \A j \in (i+1)..Len(res) : ~Yielded(res[j]),
         "iter_after_none")
  \* exhaustion yields exactly the expected number of elements
  \cup (IF panicked \/ ~Exhausted(res) THEN {}
        ELSE T(Cardinality(ys) = ExpectedTotal(adapt, k, n), "iter_missing")
             \* declared exact size: len and size_hint are exactly the number still to come
             \cup T(\A i \in 1..Len(res) : (res[i].c = 2 /\ res[i].st = "done") => res[i].len = Remaining(res, i), "iter_len")
             \cup T(\A i \in 1..Len(res) : (res[i].c = 3 /\ res[i].st = "done") =>
                      IF DeclaresExact(res)
                      THEN res[i].lo = Remaining(res, i) /\ res[i].hi = <<Remaining(res, i)>>
                      ELSE res[i].lo <= Remaining(res, i) /\ (res[i].hi = <<>> \/ Remaining(res, i) <= res[i].hi[1]),
                    "iter_hint"))

\* sorted iterators: next yields an extreme of what remains (PriorityQueue: maximum;
\* DoublePriorityQueue: next = minimum, next_back = maximum)
RECURSIVE OrderWalk(_,_,_,_)
OrderWalk(res, i, rem, kind) ==
  IF i > Len(res) THEN {} ELSE
  IF ~Yielded(res[i]) \/ Proj4(res[i].y[1]) \notin rem THEN OrderWalk(res, i+1, rem, kind) ELSE
  LET y == Proj4(res[i].y[1])
      isMax == kind = "pq" \/ res[i].c = 1 IN
  T(IF isMax THEN \A x \in rem : x.r <= y.r ELSE \A x \in rem : x.r >= y.r, "iter_order")
  \cup OrderWalk(res, i+1, rem \ {y}, kind)
=============================================================================
