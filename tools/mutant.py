#!/usr/bin/env python3
"""tools/mutant.py <mutant-id> <property> <dir with patch.diff, demo_*.rs, notes.md> [extra check ids...]
Confirms a seeded change in a scratch worktree (compiles, existing tests pass, demo fails with it and
passes without), stores it under /verif/seeded/<id>/, then applies it to /repo, runs the property's
check(s) and reverts /repo."""
import glob, json, os, shutil, subprocess, sys, time

def sh(cmd, cwd=None, timeout=3600):
    p = subprocess.run(cmd, cwd=cwd, shell=isinstance(cmd, str), stdout=subprocess.PIPE, stderr=subprocess.STDOUT, text=True, timeout=timeout)
    return p.returncode, p.stdout

def tests_ok(wt, feat):
    rc, out = sh("CARGO_TARGET_DIR=%s/target cargo test --offline %s 2>&1" % (wt, feat), cwd=wt)
    res = [l for l in out.splitlines() if l.startswith("test result")]
    return rc == 0, res, out

def main():
    mid, prop, src = sys.argv[1], sys.argv[2], sys.argv[3]
    checks = [prop] + sys.argv[4:]
    dst = "/verif/seeded/" + mid
    os.makedirs(dst, exist_ok=True)
    for f in glob.glob(src + "/*"):
        shutil.copy(f, dst)
    patch = dst + "/patch.diff"
    demo = glob.glob(dst + "/demo_*.rs")[0]
    wt = "/tmp/confirm_" + mid
    sh("git -C /repo worktree remove --force %s" % wt)
    rc, out = sh("git -C /repo worktree add --detach %s HEAD" % wt)
    meta = {"id": mid, "property": prop, "ran": []}
    try:
        shutil.copy(demo, wt + "/tests/" + os.path.basename(demo))
        demo_name = os.path.basename(demo)[:-3]
        feat = "--features serde" if "serde" in open(demo).read() else ""
        rc, out = sh("CARGO_TARGET_DIR=%s/target cargo test --offline %s --test %s 2>&1" % (wt, feat, demo_name), cwd=wt)
        meta["demo_features"] = feat
        meta["demo_passes_without_change"] = rc == 0
        rc, out = sh("git apply %s" % patch, cwd=wt)
        if rc != 0:
            # written against an earlier commit of /repo (before a later fix: commit): three-way merge
            rc, out = sh("git apply --3way %s" % patch, cwd=wt)
            if rc == 0:
                rc2, newp = sh("git diff HEAD -- src", cwd=wt)
                open(patch, "w").write(newp)
                sh("git reset -q", cwd=wt)
                meta["patch_rebased"] = True
        meta["patch_applies"] = rc == 0
        ok1, r1, _ = tests_ok(wt, "--lib --tests --doc" if False else "")
        # the demo is part of `cargo test` now; judge the existing suite without it
        os.remove(wt + "/tests/" + os.path.basename(demo))
        ok1, r1, o1 = tests_ok(wt, "")
        ok2, r2, o2 = tests_ok(wt, "--features serde")
        meta["existing_tests_pass_with_change"] = ok1 and ok2
        meta["existing_tests_summary"] = r1 + r2
        shutil.copy(demo, wt + "/tests/" + os.path.basename(demo))
        rc, out = sh("CARGO_TARGET_DIR=%s/target cargo test --offline %s --test %s 2>&1" % (wt, feat, demo_name), cwd=wt)
        meta["demo_fails_with_change"] = rc != 0
        meta["ran"] += ["cargo test --offline [--features serde] in scratch worktree with patch", "cargo test --test %s with/without patch" % demo_name]
    finally:
        sh("git -C /repo worktree remove --force %s" % wt)
        shutil.rmtree(wt, ignore_errors=True)
    confirmed = meta.get("demo_passes_without_change") and meta.get("patch_applies") and meta.get("existing_tests_pass_with_change") and meta.get("demo_fails_with_change")
    meta["confirmed"] = bool(confirmed)
    print(json.dumps({k: v for k, v in meta.items() if k != "existing_tests_summary"}, indent=1))
    meta["detected_by"] = {}
    if confirmed:
        rc, out = sh("git -C /repo status --porcelain")
        assert out.strip() == "", "/repo is dirty"
        rc, out = sh("git -C /repo apply %s" % patch)
        assert rc == 0, out
        # the evidence files must describe runs on the unchanged tree: keep them aside
        shutil.rmtree("/verif/out/evidence_keep", ignore_errors=True)
        shutil.copytree("/verif/evidence", "/verif/out/evidence_keep")
        try:
            for c in checks:
                t = time.time()
                rc, out = sh("./check %s --tier quick" % c, cwd="/verif", timeout=3600)
                viol = [l for l in out.splitlines() if l.startswith("VIOLATION")]
                meta["detected_by"][c] = {"rc": rc, "violations": len(viol), "wall_s": round(time.time() - t),
                                          "first": [l for l in out.splitlines() if l.startswith("   kind=")][:2]}
                print(c, "rc=%d" % rc, "violations=%d" % len(viol), "%.0fs" % (time.time() - t))
                for l in out.splitlines():
                    if l.startswith("   kind=") or l.startswith("DRIFT") or l.startswith("TOOL"):
                        print("   ", l[:260])
                        break
        finally:
            shutil.rmtree("/verif/evidence", ignore_errors=True)
            shutil.copytree("/verif/out/evidence_keep", "/verif/evidence")
            sh("git -C /repo checkout -- .")
            rc, out = sh("git -C /repo status --porcelain")
            assert out.strip() == "", "/repo not restored: " + out
    notes = open(dst + "/notes.md").read() if os.path.exists(dst + "/notes.md") else ""
    meta["needs_to_manifest"] = notes[:1500]
    json.dump(meta, open(dst + "/meta.json", "w"), indent=1)

main()
