#!/usr/bin/env python3
"""regenerates /verif/seeded/INDEX.md from the meta.json files written by tools/mutant.py"""
import glob, json, os
rows = []
for d in sorted(glob.glob("/verif/seeded/*/")):
    mp = os.path.join(d, "meta.json")
    if not os.path.exists(mp):
        continue
    m = json.load(open(mp))
    det = m.get("detected_by", {})
    caught = ", ".join("%s (%d s)" % (c, v.get("wall_s", 0)) for c, v in det.items() if v.get("rc") == 1) or "-"
    missed = ", ".join(c for c, v in det.items() if v.get("rc") == 0) or "-"
    err = ", ".join(c for c, v in det.items() if v.get("rc") not in (0, 1)) or "-"
    first = ""
    for c, v in det.items():
        if v.get("first"):
            first = v["first"][0].strip()[:110]
            break
    notes = (m.get("needs_to_manifest") or "").strip().splitlines()
    summary = next((l.strip("-* #") for l in notes if len(l.strip()) > 20), "")[:160]
    rows.append("| %s | %s | %s | %s | %s | %s | %s |" % (m["id"], m["property"], "yes" if m.get("confirmed") else "NO", caught, missed, err,
                                                        summary.replace("|", "/")))
out = ["# Seeded changes", "",
       "Written by sub-agents that saw only the property text; confirmed and run by `tools/mutant.py` (quick tier).",
       "`caught by` = checks that exited 1 with a VIOLATION line while the patch was applied to /repo.", "",
       "| id | property | confirmed | caught by | not caught by | tool error | what it is |", "|---|---|---|---|---|---|---|"] + rows
open("/verif/seeded/INDEX.md", "w").write("\n".join(out) + "\n")
print("\n".join(out))
