#!/bin/sh
# offline build of the harness against /repo's working tree + syntax check of every spec module
set -e
cd "$(dirname "$0")"
(cd harness && cargo build --release --offline 2>&1 | tail -2)
