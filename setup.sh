#!/bin/sh
# offline build of the harness against /repo's working tree + parse of every spec module
set -e
cd "$(dirname "$0")"
(cd harness && CARGO_NET_OFFLINE=true cargo build --release --offline 2>&1 | tail -2)
cd spec
for m in *.tla; do
  java -DTLA-Library=/opt/veriftools/tlapm/lib/tlapm/stdlib -cp /opt/veriftools/tla/tla2tools.jar:/opt/veriftools/tla/CommunityModules-deps.jar tla2sany.SANY "$m" > /tmp/sany.$$ 2>&1 || { cat /tmp/sany.$$; rm -f /tmp/sany.$$; echo "SANY failed on $m"; exit 1; }
done
rm -f /tmp/sany.$$
echo "setup ok"
