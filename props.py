"""Per-property check definitions: which engines run with which scope, which failure classes of
the trace specification concern the property, how violations are reported."""
import json
import os
import time

import vlib
import engines
from vlib import log, ToolError

# ---------------------------------------------------------------------------------------------
# failure classes (tags printed by the trace specifications)
# ---------------------------------------------------------------------------------------------
ORDER_TAGS = {"peek_none", "peek_stored", "peek_extreme", "pop_none", "pop_stored", "pop_extreme",
              "popif_none", "popif_stored", "popif_extreme", "popif_seen", "same_as_peek",
              "sorted_order", "sorted_missing", "sorted_dup_or_unknown", "sorted_elem", "sorted_count",
              "sorted_after_end", "sorted_len", "sorted_calls", "order"}
CONTENT_TAGS = {"ret", "contents", "tag", "len", "is_empty", "iter", "into_iter", "into_vec", "get",
                "get_borrowed", "setter_calls", "peek_stored", "pop_stored", "peek_none", "pop_none",
                "popif_stored", "popif_none", "popif_seen", "sorted_missing", "sorted_dup_or_unknown",
                "sorted_elem", "sorted_count", "retain_calls", "itermut_elem", "itermut_dup", "bulk_contents",
                "append_contents", "append_other_nonempty", "unknown_op", "drain_elem", "drain_count", "drain_not_empty"}
SAFETY_TAGS = {"panic", "wf", "abort"}
ALL = None  # every tag

PUSHDIR = {"push_increase", "push_decrease"}
UPDATES = {"push", "change_priority", "change_priority_by"} | PUSHDIR
BULK = {"extend", "from_vec", "from_iter", "append", "convert"}
INPLACE = {"retain", "retain_mut", "iter_mut", "pop_if", "pop_min_if", "pop_max_if"}
READS = {"peek", "peek_min", "peek_max", "peek_mut", "peek_min_mut", "peek_max_mut", "get", "get_priority",
         "get_mut", "debug"}
POPS = {"pop", "pop_min", "pop_max"}
BASIC = UPDATES | {"remove", "clear"} | POPS | READS


def opname(p):
    return p["op"]


def light(p):
    """probe subset executed on the real code from every state (the model's own transition relation
    still uses the whole alphabet): drops most two-pair extends and retain_mut rewrites of dropped keys"""
    if p["op"] == "extend":
        pr = p["pairs"]
        return len(pr) <= 1 or pr[0][0] == pr[1][0] or (pr[0][1] == 0 and pr[1][1] == 1 and p["hint"] == [])
    if p["op"] == "retain_mut":
        st = p["set"]
        return not st or all(k in p["keep"] for k in st)
    return True


def sig_of(fl):
    """structural signature of a failure, for the known-findings file"""
    c = fl.get("cause", {})
    return {"kind": fl["kind"], "op": fl["cause_op"], "event_op": fl["op"], "tags": fl["tags"],
            "hint": c.get("hint"), "it": c.get("it"), "adapt": c.get("adapt"), "engine": fl["engine"].split("/")[0],
            "msg": (fl.get("event", {}).get("msg") or c.get("msg") or "")[:60]}


# ---------------------------------------------------------------------------------------------
# property definitions: run(tier, seed) -> Findings, relevant(failure) -> bool
# ---------------------------------------------------------------------------------------------
def scope(tier, quick, thorough):
    return thorough if tier == "thorough" else quick


def creation_probes(kind, keys, maxp, maxlen=3, ops=("from_vec", "from_iter", "de", "extend")):
    """every pair sequence with repeats up to maxlen through the constructing / bulk operations"""
    import itertools
    other = "dpq" if kind == "pq" else "pq"
    allp = [[k, r] for k in keys[:2] + keys[-1:] for r in range(min(maxp, 1) + 1)]
    seen = []
    for a in allp:
        if a not in seen:
            seen.append(a)
    allp = seen
    out = []
    pm = "pop" if kind == "pq" else "pop_min"
    for ln in range(0, maxlen + 1):
        for sq in itertools.product(allp, repeat=ln):
            sq = [list(x) for x in sq]
            for o in ops:
                if o == "extend":
                    out.append([{"op": "extend", "pairs": sq}, {"op": pm}])
                    out.append([{"op": "extend", "pairs": sq, "hint": [0, -1]}, {"op": pm}])
                else:
                    out.append([{"op": o, "q": 2, "kind": kind, "pairs": sq}, {"op": pm, "q": 2},
                                {"op": "push", "q": 2, "k": keys[0], "r": 1}, {"op": "contents", "q": 2}])
    return out


def append_probes(kind, keys, maxp):
    """two independently created queues appended in both directions (equal, shorter and longer other; clashing
    items), then keyed operations on the moved and on the clashing items"""
    pm = "pop" if kind == "pq" else "pop_min"
    out = []
    others = [[], [["z", 1]], [[keys[0], maxp]], [[keys[0], maxp], ["z", 0]], [[keys[0], 0], [keys[-1], maxp]],
              [[keys[0], 0], [keys[-1], maxp], ["z", 1]], [[keys[0], 0], [keys[-1], maxp], ["z", 1], ["y", 0]]]
    for oi, oth in enumerate(others):
      # (the other queue with and without spare capacity: which queue survives must not depend on it)
      for how in ([{"op": "new", "q": 2}], [{"op": "new", "q": 2, "how": "with_capacity", "cap": [64, 5, 1000][oi % 3]}]):
        build = how + [{"op": "push", "q": 2, "k": k, "r": r} for k, r in oth]
        after = [{"op": "contents"}, {"op": "change_priority", "k": "z", "r": maxp}, {"op": "remove", "k": keys[0]},
                 {"op": "push", "k": "z", "r": 0}, {"op": "push", "k": keys[-1], "r": 1}, {"op": pm}, {"op": "contents"}]
        out.append(build + [{"op": "append", "q": 1, "o": 2}] + after)
        out.append(build + [{"op": "append", "q": 2, "o": 1}] + [dict(a, q=2) for a in after])
        out.append(build + [{"op": "reserve", "q": 1, "n": 100}, {"op": "append", "q": 1, "o": 2}] + after)
    return out


def reuse_probes(kind, keys, maxp):
    """the queue emptied (clear, drain consumed to any extent, drain leaked, retain rejecting everything, popped or
    removed dry) and then REUSED: refilled with at
    least three items, one of them removed by key, everything popped - the index tables of the first life must
    not show through in the second"""
    pm = ["pop"] if kind == "pq" else ["pop_min", "pop_max"]
    names = list(keys) + ["z", "y", "x"][:max(0, 3 - len(keys))]
    out = []
    empties = [[{"op": "clear"}], [{"op": "drain", "n": 0}], [{"op": "drain", "n": len(keys)}],
               [{"op": "iter_calls", "it": "drain", "calls": [0], "forget": True}],
               [{"op": "retain", "keep": []}], [{"op": "retain_mut", "keep": []}],
               [{"op": pm[0]}] * len(keys), [{"op": "remove", "k": k} for k in keys]]
    for emp in empties:
        for vi, v in enumerate(names):
            for desc in (False, True):
                fill = [{"op": "push", "k": k, "r": (len(names) - i if desc else i)} for i, k in enumerate(names)]
                out.append(emp + fill + [{"op": "remove", "k": v}] + [{"op": pm[(vi + j) % len(pm)]} for j in range(len(names))]
                           + [{"op": "contents"}])
    return out


def p_C01(tier, seed):
    n, mp = scope(tier, (4, 2), (5, 2))
    f = engines.engine_A("C01", ["pq"], n, mp, light, ["sorted:pop"])
    # deeper universe (sizes up to 6: two full levels below the root) with the core alphabet
    f.merge(engines.engine_A("C01", ["pq"], 6, 1, lambda p: p["op"] not in READS, ["sorted:pop"], alphabet="core",
                             probe_sample=scope(tier, 10, None), seed=seed))
    nh, nk, no = scope(tier, (16, [16, 24, 40], 300), (64, [16, 33, 64, 100], 1500))
    f.merge(engines.engine_B("C01", ["pq"], seed, nh, nk, no))
    # mid-size states, every position addressed by every single-element operation
    f.merge(engines.engine_M("C01", ["pq"], scope(tier, (8, 13, 16, 31), (8, 9, 13, 16, 17, 31, 32, 40, 64)),
                             scope(tier, 3, 6), seed, ["sorted:pop"]))
    return f


def p_C02(tier, seed):
    n, mp = scope(tier, (4, 2), (5, 2))
    f = engines.engine_A("C02", ["dpq"], n, mp, light, ["sorted:pop_min", "sorted:pop_max", "sorted:alt"])
    f.merge(engines.engine_A("C02", ["dpq"], 6, 1, lambda p: p["op"] not in READS, ["sorted:pop_min", "sorted:pop_max"],
                             alphabet="core", probe_sample=scope(tier, 10, None), seed=seed))
    nh, nk, no = scope(tier, (16, [16, 24, 40], 300), (64, [16, 33, 64, 100], 1500))
    f.merge(engines.engine_B("C02", ["dpq"], seed, nh, nk, no))
    f.merge(engines.engine_M("C02", ["dpq"], scope(tier, (8, 13, 16, 31), (8, 9, 13, 16, 17, 31, 32, 40, 64)),
                             scope(tier, 3, 6), seed, ["sorted:pop_min", "sorted:pop_max", "sorted:alt"]))
    return f


def p_C03(tier, seed):
    n, mp = scope(tier, (3, 2), (4, 2))
    f = engines.engine_A("C03", ["pq", "dpq"], n, mp, light, ["contents"])
    if tier == "thorough":
        # every arrangement of 5 items x 3 priorities, 60 seeded probes from each
        f.merge(engines.engine_A("C03", ["pq", "dpq"], 5, 2, light, ["contents"], probe_sample=60, seed=seed, wd_name="C03w"))
    f.merge(engines.engine_A("C03", ["pq", "dpq"], n, mp, lambda p: False, ["contents"],
                             extra_probes=lambda k, ks, m: append_probes(k, ks, m) + reuse_probes(k, ks, m),
                             wd_name="C03a", max_states=scope(tier, 40, None)))
    nh, nk, no = scope(tier, (8, [8, 20], 300), (32, [8, 20, 50], 1500))
    f.merge(engines.engine_B("C03", ["pq", "dpq"], seed, nh, nk, no, check_every=5, weights={"clear": 0.5, "drain": 1}))
    return f


def p_C04(tier, seed):
    n, mp = scope(tier, (3, 2), (4, 2))

    def extra(kind, keys, maxp):
        # leaked iter_mut guards (order unspecified afterwards) followed by further operations
        pm = "pop" if kind == "pq" else "pop_max"
        out = []
        for cnt in range(0, len(keys) + 1):
            for k in keys:
                out.append([{"op": "iter_mut", "n": cnt, "set": {k: maxp}, "forget": True},
                            {"op": pm}, {"op": "push", "k": keys[0], "r": 0}, {"op": "remove", "k": k},
                            {"op": "retain", "keep": keys[:-1]}, {"op": pm}])
        return out

    def creations(kind, keys, maxp):
        return creation_probes(kind, keys, maxp)
    f = engines.engine_A("C04", ["pq", "dpq"], n, mp, light, ["contents"], extra_probes=extra)
    # every constructing / bulk operation on every short pair sequence with repeats (from the empty state only)
    f.merge(engines.engine_A("C04", ["pq", "dpq"], n, mp, lambda p: False, ["contents"], extra_probes=creations,
                             max_states=1, wd_name="C04c"))
    nh, nk, no = scope(tier, (8, [16, 40], 300), (32, [16, 40, 100], 1500))
    f.merge(engines.engine_B("C04", ["pq", "dpq"], seed, nh, nk, no))
    # iterators: a cursor that underflows (panic) or hands out the same element twice (two live &mut) is a
    # fault-free panic / undefined behaviour
    f.merge(engines.engine_C("C04", ["pq", "dpq"], ["iter_mut", "iter_mut_ref", "drain", "iter"],
                             scope(tier, [0, 1, 2, 3], [0, 1, 2, 3, 4]), scope(tier, 4, 5), adaptors=False, wd_name="C04i"))
    # the index-table lemma from EVERY pair of mutually inverse tables (all n! arrangements), and the inductive
    # step of the whole alphabet from every well-formed ordered store
    wd = vlib.workdir("C04_tables")
    nt = scope(tier, 6, 8)
    mc = vlib.run_mc("MCTables", {"N": str(nt)}, ["WFInv", "NoBadOut", "Corresponds"], wd, view=None, workers=8, timeout=3000)
    if mc["violated"]:
        raise ToolError("MCTables: %s violated (see %s)" % (mc["violated"], mc["out"]))
    log("[tables] Store::swap / swap_remove / remove keep heap and qp mutually inverse from all table pairs of <= %d "
        "entries: %d states, %d transitions" % (nt, mc["distinct"], mc["generated"]))
    f.stats["states"] += mc["distinct"]
    f.stats["transitions"] += mc["generated"]
    f.stats["engines"].append({"engine": "MCTables", "n": nt, "distinct_states": mc["distinct"], "transitions": mc["generated"],
                               "invariants": ["WFInv", "NoBadOut", "Corresponds (Store.tla operators = TableLemma.tla functions)"]})
    if tier == "thorough":
        # the same lemma for ARBITRARY n: TLAPS proof of TableLemma.tla (swap, swap_remove, remove, append, identity)
        ob, pr, _ = vlib.run_tlapm("TableLemma", wd)
        if ob != pr:
            raise ToolError("TLAPS: %d of %d obligations of TableLemma.tla not proved" % (ob - pr, ob))
        log("[tlaps] TableLemma.tla: all %d obligations proved: Store::swap / swap_remove / remove / push-append keep heap and qp "
            "mutually inverse for arbitrary n" % ob)
        f.stats["engines"].append({"engine": "TLAPS", "module": "TableLemma", "obligations": ob, "discharged": pr,
                                   "backends": "SMT (Z3), Zenon, Isabelle as selected by tlapm"})
    ni, npr = scope(tier, (4, 2), (5, 2))
    for kind in ("pq", "dpq"):
        wd = vlib.workdir("C04_ind_" + kind)
        consts = {"Items": vlib.tla_set(engines.keyset(ni)), "MaxP": str(npr), "Kind": vlib.tla_str(kind), "Emit": "FALSE",
                  "Alphabet": vlib.tla_str("full")}
        mc = vlib.run_mc("MCInductive", consts, ["WFInv", "OrdInv", "Refines", "PeekInv"], wd, init="IndInit", nxt="IndNext",
                         timeout=3000)
        if mc["violated"]:
            raise ToolError("MCInductive: %s violated (see %s)" % (mc["violated"], mc["out"]))
        log("[inductive/%s] one step of every operation from EVERY well-formed ordered store of <= %d items x %d priorities "
            "keeps WF, order and refinement: %d states" % (kind, ni, npr + 1, mc["distinct"]))
        f.stats["states"] += mc["distinct"]
        f.stats["transitions"] += mc["generated"]
        f.stats["engines"].append({"engine": "MCInductive", "kind": kind, "items": ni, "priorities": npr + 1,
                                   "distinct_states": mc["distinct"]})
    return f


def p_C10(tier, seed):
    n, mp = scope(tier, (3, 1), (4, 1))
    ms = scope(tier, {"Items": 4, "MaxP": 1, "MaxFaults": 1, "MaxK": 4, "MaxAfter": 2, "MaxSize": 4},
               {"Items": 4, "MaxP": 1, "MaxFaults": 2, "MaxK": 5, "MaxAfter": 3, "MaxSize": 4})
    return engines.engine_D("C10", ["pq", "dpq"], n, mp, tier, seed, model_scope=ms)


def p_C11(tier, seed):
    n, mp = scope(tier, (4, 2), (5, 2))
    wit = ["contents", "sorted:pop", "sorted:pop_min", "sorted:pop_max"]
    f = engines.engine_A("C11", ["pq", "dpq"], n, mp, lambda p: p["op"] in PUSHDIR, wit)
    nh, nk, no = scope(tier, (8, [16, 30], 300), (32, [16, 30, 60], 1500))
    f.merge(engines.engine_B("C11", ["pq", "dpq"], seed, nh, nk, no,
                             weights={"push_increase": 30, "push_decrease": 30, "push": 15}))
    # every stored key (every heap position) of seeded mid-size states
    f.merge(engines.engine_M("C11", ["pq", "dpq"], scope(tier, (8, 13, 16, 31), (8, 9, 13, 16, 17, 31, 32, 40, 64)),
                             scope(tier, 3, 6), seed, ["sorted:pop", "sorted:pop_min", "sorted:pop_max"],
                             ops_filter=lambda o: o["op"] in PUSHDIR))
    return f


def p_C12(tier, seed):
    n, mp = scope(tier, (3, 2), (4, 2))

    def extra(kind, keys, maxp):
        out = []
        for k in keys:
            for b in (0, 1):
                out.append([{"op": "get_mut", "k": k, "b": b, "wp": 1}, {"op": "push", "k": k, "r": maxp},
                            {"op": "change_priority", "k": k, "r": 0, "b": 1 - b}, {"op": "get", "k": k, "b": b}])
                out.append([{"op": "change_priority_by", "k": k, "r": 1, "b": b}, {"op": "remove", "k": k, "b": b}])
        return out
    flt = lambda p: p["op"] in UPDATES or p["op"] in READS or p["op"] in {"remove"}
    f = engines.engine_A("C12", ["pq", "dpq"], n, mp, flt, ["contents"], extra_probes=extra)
    # append: on a clash the receiver's ELEMENT (item value included) stays unless the other queue was longer
    f.merge(engines.engine_A("C12", ["pq", "dpq"], n, mp, lambda p: False, ["contents"], extra_probes=append_probes,
                             wd_name="C12a", max_states=scope(tier, 40, None)))
    nh, nk, no = scope(tier, (8, [8, 20], 300), (32, [8, 20, 50], 1500))
    f.merge(engines.engine_B("C12", ["pq", "dpq"], seed, nh, nk, no, check_every=5,
                             weights={"peek": 12, "get": 12, "iter_mut": 3, "change_priority": 15}))
    # extend naming items that are already present is a priority update like push: the stored item (and what was
    # written into it through the *_mut accessors) stays - through BOTH strategies of extend (per-element pushes;
    # append-and-rebuild, which needs >= 8 stored elements and a batch of more than 2*(len+n)/log2(len) pairs)
    import random
    rng = random.Random(seed * 31 + 5)
    cases = []
    for kind in ("pq", "dpq"):
        pk = ["peek_mut"] if kind == "pq" else ["peek_min_mut", "peek_max_mut"]
        for ln in scope(tier, (2, 8, 16, 33), (2, 8, 9, 16, 33, 64, 100)):
            keys = ["k%d" % i for i in range(ln)]
            steps = [{"op": "push", "k": k, "r": rng.randint(-3, 7)} for k in keys]
            steps += [{"op": "get_mut", "k": keys[i], "b": i % 2, "wp": 1} for i in range(0, ln, 3)] + [{"op": o, "wp": 1} for o in pk]
            for batch, hint in ((3 * ln + 8, None), (3 * ln + 8, [0, -1]), (2, None), (ln, [0, -4])):
                pairs = [[rng.choice(keys + ["z%d" % j for j in range(4)]), rng.randint(-3, 7)] for _ in range(batch)]
                pairs[0][0] = keys[0]
                pairs[-1][0] = keys[-1]
                st = {"op": "extend", "pairs": pairs}
                if hint is not None:
                    st["hint"] = hint
                steps += [st, {"op": "contents"}, {"op": "get", "k": keys[0], "b": 1}]
            cases.append({"case": [kind, "ext12", ln], "kind": kind, "hasher": "std", "universe": keys + ["z0", "z1", "z2", "z3"],
                          "steps": steps, "probes": [], "wit": []})
    t = engines.Findings()
    t.stats["engines"].append({"engine": "X-extend", "cases": len(cases)})
    engines.replay_and_validate(cases, vlib.workdir("C12_X"), "X-extend", t)
    f.merge(t)
    return f


# ------------------------------------------------------------------ C05 cost
def p_C05(tier, seed):
    # model level: MCQueue's Refines invariant includes the tag "cost" (comparisons used by the modelled
    # algorithm <= Cost!Bound) for every reachable state and every operation of the alphabet
    f = engines.Findings()
    n, mp = scope(tier, (4, 1), (5, 2))
    for kind in ("pq", "dpq"):
        wd = vlib.workdir("C05_mc_" + kind)
        consts = {"Items": vlib.tla_set(engines.keyset(n)), "MaxP": str(mp), "Kind": vlib.tla_str(kind), "Emit": "FALSE",
                  "Alphabet": vlib.tla_str("full")}
        mc = vlib.run_mc("MCQueue", consts, ["WFInv", "OrdInv", "Refines", "PeekInv"], wd)
        if mc["violated"]:
            raise ToolError("MCQueue invariant violated: %s" % mc["violated"])
        log("[cost/%s] MCQueue %d items x %d priorities: %d states, %d transitions: every modelled operation within Cost!Bound"
            % (kind, n, mp + 1, mc["distinct"], mc["generated"]))
        f.stats["states"] += mc["distinct"]
        f.stats["transitions"] += mc["generated"]
        f.stats["engines"].append({"engine": "MCQueue/cost", "kind": kind, "items": n, "distinct_states": mc["distinct"]})
    sizes = scope(tier, [16, 64, 256, 1024, 4096, 16384, 65536], [16, 64, 256, 1024, 4096, 16384, 65536, 262144, 1048576])
    lin = scope(tier, [16, 256, 4096, 65536], [16, 256, 4096, 65536, 1048576])
    f.merge(engines.engine_E("C05", ["pq", "dpq"], sizes, lin, seed))
    # the same bound on the comparison counts of ordinary small histories (drift twin also compares them exactly)
    nh, nk, no = scope(tier, (6, [16, 40], 200), (24, [16, 40, 100], 1000))
    g = engines.engine_B("C05", ["pq", "dpq"], seed, nh, nk, no, check_every=0)
    f.merge(g)
    return f


# ------------------------------------------------------------------ C06 sorted consumption
def p_C06(tier, seed):
    n, mp = scope(tier, (4, 2), (5, 1))

    def extra(kind, keys, maxp):
        m = len(keys)
        out = []
        if kind == "pq":
            out.append([{"op": "sorted", "mode": "vec"}])
            out.append([{"op": "sorted", "mode": "pop"}])
            out.append([{"op": "sorted", "mode": "iter", "calls": [0] * (m + 2)}])
        else:
            out.append([{"op": "sorted", "mode": "asc_vec"}])
            out.append([{"op": "sorted", "mode": "desc_vec"}])
            # every interleaving of next / next_back, up to 2 calls past exhaustion
            import itertools
            for cs in itertools.product((0, 1), repeat=m + 2):
                out.append([{"op": "sorted", "mode": "iter", "calls": list(cs)}])
        return out
    f = engines.engine_A("C06", ["pq", "dpq"], n, mp, lambda p: False, [], extra_probes=extra)
    f.merge(engines.engine_C("C06", ["pq", "dpq"], ["sorted"], scope(tier, [0, 1, 2, 3], [0, 1, 2, 3, 4, 5]),
                             scope(tier, 4, 6), adaptors=False, forget=False))
    nh, nk, no = scope(tier, (8, [16, 40], 200), (32, [16, 40, 100], 1000))
    f.merge(engines.engine_B("C06", ["pq", "dpq"], seed, nh, nk, no, check_every=4))
    # mid-size states rich in TIES (6-24 elements over 3-4 priority values: whole subtrees of equal priorities),
    # consumed from both ends in seeded interleavings - a sift that goes wrong only among equal priorities shows
    # when the other end is looked at afterwards
    import random
    rng = random.Random(seed * 131 + 6)
    cases = []
    for kind in ("pq", "dpq"):
        for i in range(scope(tier, 60, 400)):
            ln = rng.choice([6, 7, 8, 10, 11, 14, 15, 20, 24])
            keys = ["k%d" % j for j in range(ln)]
            vals = rng.choice([[1, 5, 9], [0, 1], [1, 5, 8, 9], [3]])
            steps = [{"op": "push", "k": k, "r": rng.choice(vals)} for k in keys]
            for _ in range(rng.randint(0, 3)):
                steps.append(rng.choice([{"op": "change_priority", "k": rng.choice(keys), "r": rng.choice(vals)},
                                         {"op": "remove", "k": rng.choice(keys)},
                                         {"op": "push", "k": "z%d" % rng.randint(0, 3), "r": rng.choice(vals)}]))
            if kind == "pq":
                steps += [{"op": "sorted", "mode": "iter", "calls": [0] * (ln + 6)}, {"op": "sorted", "mode": "vec"}]
            else:
                pats = [[0] * (ln + 6), [1] * (ln + 6), [0, 1] * (ln // 2 + 3), [1, 0] * (ln // 2 + 3), [0, 1, 1] * (ln // 3 + 2)]
                pats += [[rng.randint(0, 1) for _ in range(ln + 6)] for _ in range(4)]
                steps += [{"op": "sorted", "mode": "iter", "calls": cs} for cs in pats]
                steps += [{"op": "sorted", "mode": "asc_vec"}, {"op": "sorted", "mode": "desc_vec"}]
            cases.append({"case": [kind, "ties", i], "kind": kind, "hasher": "std", "universe": keys + ["z0", "z1", "z2", "z3"],
                          "steps": steps, "probes": [], "wit": []})
    t = engines.Findings()
    t.stats["engines"].append({"engine": "X-ties", "cases": len(cases)})
    engines.replay_and_validate(cases, vlib.workdir("C06_X"), "X-ties", t)
    f.merge(t)
    return f


# ------------------------------------------------------------------ C07 bulk construction / extend / append
HINTS = [None, [0, -1], "actual", "actual+3", [0, -4], [0, -2], [0, -3], [0, -5], "lo_actual"]


def hint_for(h, m):
    if h == "actual":
        return [0, m]
    if h == "actual+3":
        return [0, m + 3]
    if h == "lo_actual":
        return [m, -1]
    return h


def p_C07(tier, seed):
    import itertools
    import random
    n, mp = scope(tier, (3, 1), (4, 2))
    rng = random.Random(seed)

    def extra(kind, keys, maxp):
        out = []
        pri = list(range(maxp + 1))
        allp = [[k, r] for k in keys for r in pri]
        seqs = [[]] + [[a] for a in allp] + [[a, b] for a in allp for b in allp]
        seqs += [[a, b, c] for a in allp for b in allp for c in allp if len({a[0], b[0], c[0]}) < 3][:200]
        for prs in seqs:
            for h in HINTS:
                st = {"op": "extend", "pairs": prs}
                hh = hint_for(h, len(prs))
                if hh is not None:
                    st["hint"] = hh
                out.append([st])
        # construction from vectors / iterators, conversions, appends with small other queues
        for prs in seqs:
            out.append([{"op": "from_vec", "q": 2, "pairs": prs}])
            for h in (None, [0, -1], "actual+3"):
                st = {"op": "from_iter", "q": 2, "pairs": prs}
                hh = hint_for(h, len(prs))
                if hh is not None:
                    st["hint"] = hh
                out.append([st])
        out.append([{"op": "convert"}, {"op": "convert"}])
        others = [[]] + [[a] for a in allp] + [[a, b] for a in allp for b in allp if a[0] != b[0]]
        others += [[a, b, c] for a in allp for b in allp for c in allp if len({a[0], b[0], c[0]}) == 3]
        for o in others:
            out.append([{"op": "new", "q": 2}] + [{"op": "push", "q": 2, "k": k, "r": r} for k, r in o]
                       + [{"op": "append", "q": 1, "o": 2}, {"op": "push", "q": 2, "k": keys[0], "r": 0}])
        return out
    f = engines.engine_A("C07", ["pq", "dpq"], n, mp, lambda p: False,
                         ["contents", "sorted:pop", "sorted:pop_min", "sorted:pop_max"], extra_probes=extra)
    # both sides of the push-versus-rebuild threshold: needs len >= 8
    cases = []
    for kind in ("pq", "dpq"):
        for ln in scope(tier, (8, 9, 16, 33), (8, 9, 15, 16, 17, 31, 32, 33, 40, 64)):
            keys = ["k%d" % i for i in range(ln + 6)]
            base = [{"op": "push", "k": keys[i], "r": rng.randint(-3, 6)} for i in range(ln)]
            probes = []
            for m in (1, 2, 3, 5, ln // 2, ln, ln + 4, 60, 150):
                prs = [[rng.choice(keys), rng.randint(-3, 6)] for _ in range(m)]
                for h in HINTS + [[0, 40], [0, 4 * ln], [3, -1], [2 * ln, -1]]:
                    st = {"op": "extend", "pairs": prs}
                    hh = hint_for(h, m)
                    if hh is not None:
                        st["hint"] = hh
                    probes.append([st])
            cases.append({"case": [kind, "T", ln], "kind": kind, "hasher": "std", "universe": keys, "steps": base,
                          "probes": probes, "wit": ["contents", "sorted:pop", "sorted:pop_min", "sorted:pop_max"]})
    wd = vlib.workdir("C07_T")
    t = engines.Findings()
    t.stats["engines"].append({"engine": "T", "what": "extend on both sides of the rebuild threshold", "cases": len(cases)})
    engines.replay_and_validate(cases, wd, "T", t)
    f.merge(t)
    return f


# ------------------------------------------------------------------ C08 in-place bulk mutation
def p_C08(tier, seed):
    n, mp = scope(tier, (4, 1), (5, 2))
    wit = ["contents", "sorted:pop", "sorted:pop_min", "sorted:pop_max", "sorted:alt"]

    def extra(kind, keys, maxp):
        # "for all reachable queue states": also the UNORDERED states a leaked iter_mut guard leaves behind (a
        # priority raised above / lowered below everything, guard forgotten) - every rebuilding call must
        # restore the order from them too, whether or not it changes the length
        out = []
        restore = [{"op": "retain", "keep": list(keys)}, {"op": "retain_mut", "keep": list(keys)},
                   {"op": "retain", "keep": list(keys[:-1])}, {"op": "retain_mut", "keep": list(keys[1:]), "set": {keys[-1]: 0}},
                   {"op": "iter_mut", "n": 0}, {"op": "iter_mut", "n": 1, "set": {keys[0]: 1}}]
        for k in keys:
            for r in (maxp + 1, -1):
                for rs in restore:
                    out.append([{"op": "iter_mut", "n": len(keys), "set": {k: r}, "forget": True}, rs])
        return out
    f = engines.engine_A("C08", ["pq", "dpq"], n, mp, lambda p: p["op"] in INPLACE, wit, extra_probes=extra)
    nh, nk, no = scope(tier, (8, [16, 30], 300), (32, [16, 30, 60], 1500))
    f.merge(engines.engine_B("C08", ["pq", "dpq"], seed, nh, nk, no, check_every=3, leak=0.15,
                             weights={"retain": 8, "retain_mut": 10, "iter_mut": 10, "pop_if": 15}))
    return f


# ------------------------------------------------------------------ C09 / C13 iterators
def p_C09(tier, seed):
    sizes, depth = scope(tier, ([0, 1, 2, 3], 5), ([0, 1, 2, 3, 4, 5], 7))
    return engines.engine_C("C09", ["pq", "dpq"], ["iter_mut", "iter_mut_ref"], sizes, depth)


def p_C13(tier, seed):
    sizes, depth = scope(tier, ([0, 1, 2, 3], 4), ([0, 1, 2, 3, 4, 5], 6))
    return engines.engine_C("C13", ["pq", "dpq"], ["iter", "iter_ref", "into_iter", "drain", "sorted"], sizes, depth)


# ------------------------------------------------------------------ C14 equality and clones
def rename(op, ren):
    """apply an item renaming to a script operation"""
    o = dict(op)
    if "k" in o:
        o["k"] = ren.get(o["k"], o["k"])
    if "keep" in o:
        o["keep"] = [ren.get(k, k) for k in o["keep"]]
    if isinstance(o.get("set"), dict):
        o["set"] = {ren.get(k, k): v for k, v in o["set"].items()}
    if "pairs" in o:
        o["pairs"] = [[ren.get(p[0], p[0]), p[1]] for p in o["pairs"]]
    return o


def p_C14(tier, seed):
    import random
    n, mp = scope(tier, (3, 1), (4, 1))

    def run_kind(kind):
        # pass 1: the covering histories; pass 2: every ordered pair of states compared
        wd = vlib.workdir("C14_mc_" + kind)
        consts = {"Items": vlib.tla_set(engines.keyset(n)), "MaxP": str(mp), "Kind": vlib.tla_str(kind), "Emit": "TRUE",
                  "Alphabet": vlib.tla_str("full")}
        mc = vlib.run_mc("MCQueue", consts, ["WFInv", "OrdInv", "Refines", "PeekInv", "EmitInv"], wd)
        if mc["violated"]:
            raise ToolError("MCQueue invariant violated: %s" % mc["violated"])
        reps = mc["replay"]
        g = engines.Findings()
        g.stats["states"] += mc["distinct"]
        g.stats["transitions"] += mc["generated"]
        cases = []
        hashers = ["std", "fixed", "collide"]
        for i, r in enumerate(reps):
            probes = []
            # MCQueue's covering set is reduced by the item-renaming symmetry: the other side of each comparison is
            # every covering history under EVERY renaming of the items, so that equal contents also meet in different
            # slot arrangements (and unequal contents differ in one item or one priority)
            import itertools
            names = engines.keyset(n)
            perms = list(itertools.permutations(names))
            if len(perms) > 6:
                perms = perms[:1] + random.Random(seed + i).sample(perms[1:], 5)
            for j, o in enumerate(reps):
                for pi, perm in enumerate(perms):
                    ren = dict(zip(names, perm))
                    # the other side: another capacity, and every third time another BuildHasher TYPE (PartialEq is
                    # generic over the two hashers)
                    oh = {"std": "fixed", "fixed": "std", "collide": "std"}[hashers[i % 3]]
                    how = [{"op": "new", "q": 2}, {"op": "new", "q": 2, "how": "with_capacity", "cap": 64},
                           {"op": "new", "q": 2, "hasher": oh}][(j + pi) % 3]
                    build = [how] + [rename(dict(st, q=2), ren) for st in o["steps"]]
                    probes.append(build + [{"op": "eq", "q": 1, "o": 2}, {"op": "ne", "q": 1, "o": 2},
                                           {"op": "eq", "q": 2, "o": 1}, {"op": "eq", "q": 1, "o": 1}])
            # Clone::clone_from: a queue of every other covering state becomes a copy of this one (and vice versa),
            # must then be equal to it, report its length and contents, and stay usable
            pmx = "pop" if kind == "pq" else "pop_max"
            for j, o in enumerate(reps):
                build = [{"op": "new", "q": 2}] + [dict(st, q=2) for st in o["steps"]]
                probes.append(build + [{"op": "clone_from", "q": 2, "src": 1}, {"op": "eq", "q": 2, "o": 1},
                                       {"op": "contents", "q": 2}, {"op": pmx, "q": 2},
                                       {"op": "push", "q": 2, "k": names[0], "r": 1}, {"op": "contents", "q": 2},
                                       {"op": "contents", "q": 1}])
            # clones: every state-changing probe on the clone must leave the source untouched (final witness)
            probes += [p for p in mc["probes"] if light(p) and p["op"] not in READS]
            cases.append({"case": [kind, i], "kind": kind, "hasher": hashers[i % 3], "universe": engines.keyset(n),
                          "steps": r["steps"], "probes": probes, "wit": ["contents"]})
        g.stats["engines"].append({"engine": "A-pairs", "kind": kind, "states": len(reps), "ordered_pairs": len(reps) ** 2})
        g.samples.append({"engine": "A-pairs", "kind": kind, "left": reps[len(reps) // 2]["steps"], "right": reps[-1]["steps"]})
        engines.replay_and_validate(cases, wd, "A-pairs/" + kind, g)
        return g
    f = run_kind("pq")
    f.merge(run_kind("dpq"))
    # twins: "a clone behaves identically under every subsequent operation sequence" taken literally - the same
    # operations (incl. two-queue ones against identically built partners) on a source and on its clone, which
    # differ in nothing but capacity / hasher state; afterwards they must still be equal (`clone_diverged`)
    rng = random.Random(seed * 17 + 3)
    cases = []
    for kind in ("pq", "dpq"):
        pm = "pop" if kind == "pq" else "pop_min"
        i = 0
        for c1 in (0, 10, 64, 1000):
            for c2 in (0, 5, 20, 100, 2000):
                for ln in (1, 2, 3, 5):
                    i += 1
                    keys = ["k%d" % j for j in range(ln)]
                    steps = [{"op": "new", "q": 1, "how": "with_capacity", "cap": c1}]
                    steps += [{"op": "push", "q": 1, "k": k, "r": j} for j, k in enumerate(keys)]
                    steps += [{"op": "clone", "q": 3, "src": 1}]
                    for q2 in (2, 4):
                        steps += [{"op": "new", "q": q2, "how": "with_capacity", "cap": c2}]
                        steps += [{"op": "push", "q": q2, "k": k, "r": j + 10} for j, k in enumerate(keys[:max(1, ln - i % 2)])]
                        steps += [{"op": "push", "q": q2, "k": "z", "r": 3}] * (i % 2)
                    tail = [{"op": "extend", "pairs": [[keys[0], 7], ["y", 1]], "hint": [0, -4]}, {"op": "reserve", "n": rng.choice([0, 3, 50])},
                            {"op": "shrink_to_fit"}, {"op": pm}, {"op": "push", "k": "x", "r": rng.randint(-2, 12)}]
                    for q1, q2 in ((1, 2), (3, 4)):
                        steps += [{"op": "append", "q": q1, "o": q2}] + [dict(st, q=q1) for st in tail]
                    steps += [{"op": "eq", "q": 1, "o": 3, "twin": True}, {"op": "ne", "q": 3, "o": 1, "twin": True},
                              {"op": "eq", "q": 2, "o": 4, "twin": True}, {"op": "contents", "q": 1}, {"op": "contents", "q": 3}]
                    cases.append({"case": [kind, "twin", c1, c2, ln], "kind": kind, "hasher": "std", "universe": keys + ["x", "y", "z"],
                                  "steps": steps, "probes": [], "wit": []})
    t = engines.Findings()
    t.stats["engines"].append({"engine": "X-twin", "cases": len(cases)})
    engines.replay_and_validate(cases, vlib.workdir("C14_X"), "X-twin", t)
    f.merge(t)
    return f


# ------------------------------------------------------------------ C15 serialization
def p_C15(tier, seed):
    import itertools
    n, mp = scope(tier, (3, 1), (4, 2))

    def extra(kind, keys, maxp):
        other = "dpq" if kind == "pq" else "pq"
        out = []
        for tk in (kind, other):
            pm = "pop" if tk == "pq" else "pop_min"
            use = [{"op": "push", "q": 2, "k": keys[0], "r": maxp}, {"op": "push", "q": 2, "k": "z", "r": 0}, {"op": pm, "q": 2},
                   {"op": "remove", "q": 2, "k": keys[-1]}, {"op": "contents", "q": 2}]
            eq = [{"op": "eq", "q": 1, "o": 2}] if tk == kind else []
            pk = [{"op": "peek", "q": 2}] if tk == "pq" else [{"op": "peek_min", "q": 2}, {"op": "peek_max", "q": 2}]
            srt = [{"op": "sorted", "q": 2, "mode": "pop" if tk == "pq" else "pop_max"}]
            out.append([{"op": "roundtrip", "q": 2, "src": 1, "kind": tk}] + pk + srt + eq + use)
        out.append([{"op": "ser"}])
        return out
    wit = ["contents", "sorted:pop", "sorted:pop_min", "sorted:pop_max"]
    f = engines.engine_A("C15", ["pq", "dpq"], n, mp, lambda p: False, wit, extra_probes=extra)
    # every well-typed pair sequence (with repeats) over a small universe, through JSON and through serde tokens
    ni, npri, ln = scope(tier, (2, 2, 4), (3, 2, 5))
    allp = [[engines.KEYS[i], r] for i in range(ni) for r in range(npri)]
    seqs = [list(sq) for l in range(ln + 1) for sq in itertools.product(allp, repeat=l)]
    cases = []
    for kind in ("pq", "dpq"):
        pm = "pop" if kind == "pq" else "pop_max"
        probes = []
        for sq in seqs:
            pk = ["peek"] if kind == "pq" else ["peek_min", "peek_max"]
            srt = "pop" if kind == "pq" else "pop_min"
            probes.append([{"op": "de", "q": 2, "kind": kind, "pairs": sq}]
                          + [{"op": x, "q": 2} for x in pk] + [{"op": "sorted", "q": 2, "mode": srt}]
                          + [{"op": "push", "q": 2, "k": "z", "r": 1}, {"op": pm, "q": 2}, {"op": "contents", "q": 2}])
            probes.append([{"op": "de_tokens", "q": 1, "kind": kind, "pairs": sq, "lenhint": 0}])
            probes.append([{"op": "de_tokens", "q": 1, "kind": kind, "pairs": sq, "lenhint": -1}])
        # texts that are not a pair sequence at all: an error (or an empty queue) is fine, a panic is not
        for txt in ("null", "[]", "{}", "[[]]", "[1]", "[[1,2]]", "\"x\"", "[[{\"k\":\"a\",\"pay\":1},{\"r\":1,\"t\":1}],[]]",
                    "[[{\"k\":\"a\",\"pay\":1},{\"r\":1,\"t\":1},3]]", "[[{\"k\":\"a\",\"pay\":1}]]"):
            probes.append([{"op": "de", "q": 2, "kind": kind, "pairs": [], "text": txt}])
        for j in range(0, len(probes), 300):
            cases.append({"case": [kind, "de", j], "kind": kind, "hasher": ["std", "fixed"][(j // 300) % 2],
                          "universe": engines.keyset(ni) + ["z"], "steps": [], "probes": probes[j:j + 300], "wit": wit})
    t = engines.Findings()
    t.stats["engines"].append({"engine": "F", "what": "deserialization of every pair sequence with repeats",
                               "items": ni, "priorities": npri, "max_len": ln, "sequences": len(seqs)})
    t.samples.append({"engine": "F", "example_sequence": seqs[len(seqs) // 2]})
    engines.replay_and_validate(cases, vlib.workdir("C15_F"), "F", t)
    f.merge(t)
    return f


# ------------------------------------------------------------------ C16 drain and clear
def p_C16(tier, seed):
    n, mp = scope(tier, (3, 2), (4, 2))

    def extra(kind, keys, maxp):
        import itertools
        pm = "pop" if kind == "pq" else "pop_min"
        pk = "peek" if kind == "pq" else "peek_max"
        after = [{"op": pk}, {"op": pm}, {"op": "push", "k": keys[0], "r": 1}, {"op": "push", "k": "z", "r": 0},
                 {"op": pm}, {"op": "contents"}]
        out = [[{"op": "clear"}] + after]
        m = len(keys)
        pats = set()
        for ln in range(0, m + 2):
            for cs in itertools.product((0, 1), repeat=ln):
                pats.add(cs)
        for cs in sorted(pats):
            for forget in (False, True):
                out.append([{"op": "iter_calls", "it": "drain", "calls": [2] + list(cs) + [2], "forget": forget}] + after)
        return out
    f = engines.engine_A("C16", ["pq", "dpq"], n, mp, lambda p: False, ["contents"], extra_probes=extra)
    f.merge(engines.engine_C("C16", ["pq", "dpq"], ["drain"], scope(tier, [0, 1, 2, 3], [0, 1, 2, 3, 4, 5]),
                             scope(tier, 4, 6), adaptors=False))
    # larger queues and queues with spare capacity (with_capacity, reserve, shrink_to_fit before): clear / drain,
    # then a refill and the operations that touch the index tables
    import random
    rng = random.Random(seed)
    cases = []
    for kind in ("pq", "dpq"):
        pm = ["pop"] if kind == "pq" else ["pop_min", "pop_max"]
        setups = []
        for nn in scope(tier, (29, 33, 40), (8, 15, 16, 29, 32, 33, 40, 64, 100)):
            setups.append([{"op": "push", "k": "k%d" % i, "r": rng.randint(0, 9)} for i in range(nn)])
        setups.append([{"op": "new", "q": 0, "how": "with_capacity", "cap": 40}] + [{"op": "push", "k": "k%d" % i, "r": i % 3} for i in range(5)])
        setups.append([{"op": "push", "k": "k%d" % i, "r": i % 4} for i in range(10)] + [{"op": "reserve", "n": 100}])
        setups.append([{"op": "push", "k": "k%d" % i, "r": i % 5} for i in range(35)] + [{"op": pm[0]}] * 20 + [{"op": "shrink_to_fit"}])
        actions = [[{"op": "clear"}]]
        for calls, forget in (([], False), ([], True), ([0, 1, 0], False), ([0, 1, 0], True), ([0] * 200, False), ([2, 1, 1, 2], True)):
            actions.append([{"op": "iter_calls", "it": "drain", "calls": calls, "forget": forget}])
        for si, su in enumerate(setups):
            for ai, ac in enumerate(actions):
                after = []
                for rep in range(2):
                    after += [{"op": "push", "k": "z%d" % j, "r": [3, 5, 1, 4, 2][j]} for j in range(5)]
                    after += [{"op": "remove", "k": "z0"}, {"op": pm[0]}, {"op": pm[-1]}, {"op": "contents"},
                              {"op": "change_priority", "k": "z3", "r": 9}, {"op": pm[0]}, {"op": "push", "k": "k1", "r": 7},
                              {"op": "sorted", "mode": "pop" if kind == "pq" else "pop_min"}]
                    after += ac if rep == 0 else []
                cases.append({"case": [kind, "big", si, ai], "kind": kind, "hasher": "std",
                              "universe": ["k%d" % i for i in range(6)] + ["z%d" % j for j in range(5)],
                              "steps": su + ac + after, "probes": [], "wit": []})
    t = engines.Findings()
    t.stats["engines"].append({"engine": "C16-big", "cases": len(cases)})
    engines.replay_and_validate(cases, vlib.workdir("C16_big"), "big", t)
    f.merge(t)
    return f


# ------------------------------------------------------------------ C17 capacity
AMOUNTS = [0, 1, 7, 100, "max", "max-1", "max/2", "max/8", "isize", "2^45"]


def p_C17(tier, seed):
    n, mp = scope(tier, (3, 1), (4, 2))

    def extra(kind, keys, maxp):
        pm = "pop" if kind == "pq" else "pop_max"
        after = [{"op": "push", "k": keys[-1], "r": maxp}, {"op": pm}, {"op": "push", "k": "z", "r": 0}, {"op": "remove", "k": keys[0]}]
        out = []
        for op in ("reserve", "reserve_exact", "try_reserve", "try_reserve_exact"):
            for a in AMOUNTS + [2, 3, 4, 5]:
                # a big but representable request makes the infallible variants abort in the allocator
                # (out of memory is the environment, not the crate): only the try_ variants get those
                if a == "2^45" and not op.startswith("try"):
                    continue
                out.append([{"op": op, "n": a}] + after)
        out.append([{"op": "shrink_to_fit"}] + after)
        out.append([{"op": "reserve", "n": 100}, {"op": "shrink_to_fit"}] + after)
        # capacity must not decide the outcome of a later two-queue operation either
        for mine in ([], [{"op": "reserve", "n": 100}], [{"op": "shrink_to_fit"}]):
            for cap2 in (0, 64, 1000):
                other = [{"op": "new", "q": 2, "how": "with_capacity", "cap": cap2}] + \
                        [{"op": "push", "q": 2, "k": k, "r": maxp - i % 2} for i, k in enumerate(keys)]
                # (a tail runs on the history's own queue, which is queue 0)
                out.append(mine + other + [{"op": "append", "q": 0, "o": 2}, {"op": "contents"}] + after)
                out.append(mine + other + [{"op": "append", "q": 2, "o": 0}, {"op": "contents", "q": 2}])
        # a failing request on a queue WITH spare capacity (which it must keep)
        for op in ("try_reserve", "try_reserve_exact"):
            for a in ("max", "max-1", "max/2", "max/8", "2^45"):
                out.append([{"op": "reserve", "n": 100}, {"op": op, "n": a}, {"op": "try_reserve_exact", "n": 3}] + after)
        return out
    # executed on the queue the history built (a clone would have exact-fit capacities)
    f = engines.engine_A("C17", ["pq", "dpq"], n, mp, lambda p: False, ["contents", "sorted:pop", "sorted:pop_max"], tails=extra)
    # constructors with capacity, and capacity operations interleaved anywhere in random histories
    import random
    rng = random.Random(seed)
    cases = []
    for kind in ("pq", "dpq"):
        for i in range(scope(tier, 6, 24)):
            keys, steps = engines.random_history(rng, kind, rng.choice([8, 20]), scope(tier, 150, 600), list(range(-3, 8)), None, 10)
            mixed = [{"op": "new", "q": 0, "how": rng.choice(["with_capacity", "with_capacity_and_default_hasher"]),
                      "cap": rng.choice([0, 1, 10, 1000])}]
            for st in steps:
                if rng.random() < 0.3:
                    op = rng.choice(["reserve", "reserve", "reserve_exact", "try_reserve", "try_reserve_exact", "shrink_to_fit"])
                    mixed.append({"op": op, "n": rng.choice(AMOUNTS if op.startswith("try") else [0, 1, 1, 2, 3, 5, 7, 100])})
                mixed.append(st)
            cases.append({"case": [kind, "cap", i], "kind": kind, "hasher": "std", "universe": keys, "steps": mixed,
                          "probes": [], "wit": []})
    # large requested capacities (a constructor must not silently cap them)
    for kind in ("pq", "dpq"):
        for how in ("with_capacity", "with_capacity_and_default_hasher"):
            for capn in (5000, 70000, 300000, 1 << 20):
                cases.append({"case": [kind, "bigcap", how, capn], "kind": kind, "hasher": "std", "universe": ["a", "b"],
                              "steps": [{"op": "new", "q": 0, "how": how, "cap": capn}, {"op": "push", "k": "a", "r": 1},
                                        {"op": "push", "k": "b", "r": 2}, {"op": "pop" if kind == "pq" else "pop_max"},
                                        {"op": "contents"}],
                              "probes": [], "wit": []})
        for capn in (5000, 70000, 300000):
            cases.append({"case": [kind, "bigcap", "hasher", capn], "kind": kind, "hasher": "fixed", "universe": ["a"],
                          "steps": [{"op": "new", "q": 0, "how": "with_capacity_and_hasher", "cap": capn}, {"op": "push", "k": "a", "r": 1},
                                    {"op": "contents"}], "probes": [], "wit": []})
    wd = vlib.workdir("C17_R")
    t = engines.Findings()
    t.stats["engines"].append({"engine": "B-cap", "cases": len(cases)})
    engines.replay_and_validate(cases, wd, "B-cap", t)
    f.merge(t)
    return f


# ------------------------------------------------------------------ C18 hashers
def p_C18(tier, seed):
    n, mp = scope(tier, (3, 2), (4, 2))
    hs = ("std", "fixed", "fnv", "collide", "random")
    f = engines.engine_A("C18", ["pq", "dpq"], n, mp, light, ["contents", "sorted:pop", "sorted:pop_min", "sorted:pop_max"],
                         hashers=hs, probe_sample=scope(tier, 120, None), seed=seed)
    # the constructing / bulk operations (they build their own hasher through Default) under every hasher
    f.merge(engines.engine_A("C18", ["pq", "dpq"], n, mp, lambda p: False, ["contents"], hashers=hs, max_states=3,
                             extra_probes=lambda kind, keys, maxp: creation_probes(kind, keys, maxp), wd_name="C18c"))

    # two independently created queues (each with its own hasher instance) appended in both directions, then keyed
    # operations on the moved and on the clashing items
    def appends(kind, keys, maxp):
        pm = "pop" if kind == "pq" else "pop_min"
        out = []
        for others in ([], [["z", 1]], [[keys[0], maxp], ["z", 0]], [[keys[0], 0], [keys[-1], maxp], ["z", 1], ["y", 0]]):
            build = [{"op": "new", "q": 2}] + [{"op": "push", "q": 2, "k": k, "r": r} for k, r in others]
            after = [{"op": "contents"}, {"op": "change_priority", "k": "z", "r": maxp}, {"op": "remove", "k": keys[0]},
                     {"op": "push", "k": "z", "r": 0}, {"op": "push", "k": keys[-1], "r": 1}, {"op": pm}, {"op": "contents"}]
            out.append(build + [{"op": "append", "q": 1, "o": 2}] + after)
            out.append(build + [{"op": "append", "q": 2, "o": 1}] + [dict(a, q=2) for a in after])
        return out
    f.merge(engines.engine_A("C18", ["pq", "dpq"], n, mp, lambda p: False, ["contents", "sorted:pop", "sorted:pop_min"],
                             hashers=hs, extra_probes=appends, wd_name="C18a", max_states=40))
    nh, nk, no = scope(tier, (10, [16, 40], 300), (40, [16, 40, 100], 1500))
    f.merge(engines.engine_B("C18", ["pq", "dpq"], seed, nh, nk, no, hashers=hs))
    # long batches with repeated items through both strategies of extend (rebuild needs a receiver of >= 8)
    import random
    rng = random.Random(seed)
    cases = []
    for kind in ("pq", "dpq"):
        for h in hs:
            for ln in scope(tier, (16,), (8, 16, 33, 64)):
                keys = ["k%d" % i for i in range(ln)] + ["n%d" % i for i in range(40)]
                base = [{"op": "push", "k": "k%d" % i, "r": rng.randint(-3, 9)} for i in range(ln)]
                probes = []
                for m in scope(tier, (60, 150), (40, 120, 180)):
                    pool = rng.sample(keys, min(len(keys), m // 3 + 1))
                    prs = [[rng.choice(pool), rng.randint(-9, 19)] for _ in range(m)]
                    for hint in scope(tier, (None, [0, 4 * m]), (None, [0, -1], [0, 4 * m])):
                        st = {"op": "extend", "pairs": prs}
                        if hint is not None:
                            st["hint"] = hint
                        probes.append([st])
                cases.append({"case": [kind, h, "bigext", ln], "kind": kind, "hasher": h, "universe": keys[:12], "steps": base,
                              "probes": probes, "wit": ["sorted:pop", "sorted:pop_min"]})
    t = engines.Findings()
    t.stats["engines"].append({"engine": "bigext", "cases": len(cases)})
    engines.replay_and_validate(cases, vlib.workdir("C18_bigext"), "bigext", t)
    f.merge(t)
    return f


PROPS = {
    "C01": {"run": p_C01, "level": "model_checking", "aborts": True,
            "relevant": lambda fl: fl["kind"] == "pq" and bool(set(fl["tags"]) & ORDER_TAGS)},
    "C02": {"run": p_C02, "level": "model_checking", "aborts": True,
            "relevant": lambda fl: fl["kind"] == "dpq" and bool(set(fl["tags"]) & ORDER_TAGS)},
    "C03": {"run": p_C03, "level": "model_checking", "aborts": True,
            "relevant": lambda fl: bool(set(fl["tags"]) & CONTENT_TAGS)},
    "C04": {"run": p_C04, "level": "model_checking", "aborts": True,
            "relevant": lambda fl: bool(set(fl["tags"]) & SAFETY_TAGS)
            or (fl["op"] == "iter_calls" and bool(set(fl["tags"]) & {"iter_panic", "iter_dup"}))},
    "C05": {"run": p_C05, "level": "model_checking",
            "relevant": lambda fl: "cost" in fl["tags"]},
    "C06": {"run": p_C06, "level": "model_checking", "aborts": True,
            "relevant": lambda fl: (fl["op"] == "sorted" and fl["event"].get("mode") in ("vec", "iter", "asc_vec", "desc_vec")) or
            (fl["op"] == "into_calls" and fl["cause"].get("it") == "sorted"
             and bool(set(fl["tags"]) & {"iter_order", "iter_last", "iter_dup", "iter_unknown", "iter_missing", "iter_after_none", "iter_len"}))},
    "C07": {"run": p_C07, "level": "model_checking", "aborts": True,
            "relevant": lambda fl: fl["cause_op"] in BULK},
    "C08": {"run": p_C08, "level": "model_checking", "aborts": True,
            "relevant": lambda fl: fl["cause_op"] in INPLACE},
    "C09": {"run": p_C09, "level": "model_checking",
            "relevant": lambda fl: fl["op"] == "iter_calls" and fl["cause"].get("it") in ("iter_mut", "iter_mut_ref")},
    "C13": {"run": p_C13, "level": "model_checking",
            "relevant": lambda fl: fl["op"] in ("iter_calls", "into_calls")
            and fl["cause"].get("it") in ("iter", "iter_ref", "into_iter", "drain", "sorted")
            and bool(set(fl["tags"]) & {"iter_dup", "iter_unknown", "iter_missing", "iter_after_none", "iter_len", "iter_hint", "iter_panic", "iter_last", "iter_position", "iter_provided"})},
    "C14": {"run": p_C14, "level": "model_checking", "aborts": True,
            "relevant": lambda fl: fl["op"] in ("eq", "ne", "clone", "clone_from") or fl["cause_op"] in ("clone", "clone_from")
            or fl["phase"] == "hist" or "clone_diverged" in fl["tags"]
            or (fl["op"] in ("contents",) and fl.get("event", {}).get("q") == 0)},
    "C15": {"run": p_C15, "level": "model_checking", "aborts": True,
            "relevant": lambda fl: fl["cause_op"] in ("de", "roundtrip", "de_tokens", "ser") or fl["op"] in ("de", "roundtrip", "de_tokens", "ser")
            or fl["engine"].startswith("F") or fl["engine"] == "witness"},
    "C16": {"run": p_C16, "level": "model_checking", "aborts": True,
            "relevant": lambda fl: True},
    "C17": {"run": p_C17, "level": "model_checking", "aborts": True,
            "relevant": lambda fl: True},
    "C18": {"run": p_C18, "level": "model_checking", "aborts": True,
            "relevant": lambda fl: bool(set(fl["tags"]) & (ORDER_TAGS | CONTENT_TAGS | SAFETY_TAGS | {"de_contents"}))},
    "C10": {"run": p_C10, "level": "model_checking", "aborts": True,
            "relevant": lambda fl: "drop_balance" in fl["tags"]},
    "C11": {"run": p_C11, "level": "model_checking", "aborts": True,
            "relevant": lambda fl: fl["cause_op"] in PUSHDIR},
    "C12": {"run": p_C12, "level": "model_checking", "aborts": True,
            # (the stored item written by the constructing / merging bulk operations is C07's business; extend on a present
            # item is a priority update)
            "relevant": lambda fl: (bool(set(fl["tags"]) & {"payload", "get_borrowed"}) and fl["cause_op"] not in (BULK - {"extend"}))
            or (fl["cause"].get("b") == 1 and bool(set(fl["tags"]) & {"ret", "contents"}))
            or (fl["op"] == "append" and "append_contents" in fl["tags"])
            # a *_mut accessor that addresses another element than the one it should: the write lands elsewhere
            or (fl["op"] in ("peek_mut", "peek_min_mut", "peek_max_mut", "get_mut")
                and bool(set(fl["tags"]) & {"same_as_peek", "peek_stored", "peek_extreme", "peek_none", "ret"}))},
}

ASSUMPTIONS = [
    "the concrete TLA+ layer is a hand transcription of the Rust code; its faithfulness is measured (drift) not proved",
    "exhaustive statements hold within the stated constants (items, priority values); beyond them the evidence is seeded sampling validated by the same specification",
    "IndexMap / hashbrown / std internals are trusted",
    "the harness only executes and records; every judgement is a TLA+ predicate evaluated by TLC",
]


def run(prop, tier, seed, t0):
    P = PROPS[prop]
    f = P["run"](tier, seed)
    known = vlib.load_known()
    violations = []
    known_hits = {}
    other = 0
    # a raw heap-order breach of the snapshot counts only together with a behavioural witness in the same
    # case (a peek/pop/sorted observation of a non-extreme element); alone it is layout drift
    witnessed = {fl["caseid"] for fl in f.fails if set(fl["tags"]) & (ORDER_TAGS - {"order"})}
    # counterexample-guided witness search (spec/MCWitness.tla): a case whose raw snapshot broke the heap
    # order without any behavioural witness is handed to TLC, which searches from that recorded concrete state
    # for the shortest continuation after which a peek reports a non-extreme element; the continuation is
    # executed on the real code and judged by the trace specification.  Only that observation counts.
    todo = {}
    for fl in f.fails:
        if "order" in fl["tags"] and fl["caseid"] not in witnessed and fl["case"]:
            todo.setdefault((fl["kind"], fl["cause_op"], fl["engine"]), fl)
    if todo:
        g = witness_search(prop, list(todo.values())[:4])
        for fl in g.fails:
            if set(fl["tags"]) & (ORDER_TAGS - {"order"}):
                f.fails.append(fl)
                witnessed.add(fl["caseid"])
                # the original breach belongs to the same defect
                for o in f.fails:
                    if "order" in o["tags"] and (o["kind"], o["cause_op"]) == (fl["kind"], fl.get("origin_op")):
                        witnessed.add(o["caseid"])
        f.stats["events"] += g.stats["events"]
        f.stats["cases"] += g.stats["cases"]
    for fl in f.fails:
        if "order" in fl["tags"] and fl["caseid"] not in witnessed:
            fl["tags"] = [t for t in fl["tags"] if t != "order"]
            f.drift.append({"op": fl["cause_op"], "what": "raw_order_without_witness", "engine": fl["engine"]})
            if not fl["tags"]:
                continue
        if not P["relevant"](fl):
            other += 1
            continue
        k = vlib.match_known(prop, sig_of(fl), known)
        if k is not None:
            known_hits.setdefault(k["id"], [k, 0])[1] += 1
        else:
            violations.append(fl)
    abort_v = []
    if P.get("aborts"):
        for ab in f.aborts:
            sig = {"kind": ab["case"].get("kind"), "op": "abort", "tags": ["abort"], "engine": ab["engine"].split("/")[0]}
            k = vlib.match_known(prop, sig, known)
            if k is not None:
                known_hits.setdefault(k["id"], [k, 0])[1] += 1
            else:
                abort_v.append(ab)
    elif f.aborts:
        log("NOTE: %d harness process deaths in this run (not judged by %s)" % (len(f.aborts), prop))
    for kid, (k, cnt) in sorted(known_hits.items()):
        log("KNOWN-FINDING: property=%s %s [%s, %d occurrences]" % (prop, k["description"], kid, cnt))
    if other:
        log("NOTE: %d failing events of classes that other properties judge (not %s)" % (other, prop))
    if f.drift:
        kinds = {}
        for d in f.drift:
            kinds[(d["op"], d["what"].split(",")[0])] = kinds.get((d["op"], d["what"].split(",")[0]), 0) + 1
        log("DRIFT (model no longer mirrors the code; information, not a violation): %d events %s"
            % (len(f.drift), sorted(kinds.items())[:8]))
    rc = 0
    shown = set()
    for fl in violations:
        key = (fl["kind"], fl["cause_op"], tuple(sorted(fl["tags"])))
        if key in shown:
            continue
        shown.add(key)
        case = dict(fl["case"] or {})
        payload = {"property": prop, "engine": fl["engine"], "kind": fl["kind"], "hasher": fl["hasher"],
                   "tags": fl["tags"], "failing_event": fl["event"], "cause": fl["cause"], "case": minimise(case, fl)}
        path = vlib.save_replay(prop, payload)
        log("VIOLATION property=%s replay=%s" % (prop, path))
        log("   kind=%s op=%s tags=%s event=%s" % (fl["kind"], fl["cause_op"], fl["tags"], json.dumps(fl["event"])[:300]))
        rc = 1
        if len(shown) >= 10:
            break
    for ab in abort_v[:5]:
        path = vlib.save_replay(prop, {"property": prop, "engine": ab["engine"], "tags": ["abort"], "case": ab["case"],
                                       "stderr": ab["stderr"], "rc": ab["rc"]})
        log("VIOLATION property=%s replay=%s" % (prop, path))
        log("   harness process died (rc=%s): %s" % (ab["rc"], ab["stderr"][-200:].replace("\n", " ")))
        rc = 1
    st = f.stats
    cov = {"states": st["states"], "transitions": st["transitions"],
           "traces_validated_against_impl": st["traces_ok"],
           "evaluations": st["events"], "distinct_nontrivial": st["distinct_nontrivial"],
           "rule": "evaluations = events (public calls) executed on the real code and judged by TLC; a case is "
                   "non-trivial if the call changed the raw state or returned Some/true; distinct = different "
                   "(kind, op, arguments, pre-state) - counted on up to 4 shards per engine, i.e. conservatively",
           "samples": f.samples[:4], "engines": st["engines"], "cases_replayed": st["cases"],
           "drift_events": len(f.drift), "failing_events_other_properties": other,
           "known_findings_reproduced": {k: v[1] for k, v in known_hits.items()},
           "exhaustive": True,
           "exhaustive_scope": "engine A: every reachable (pri, heap, qp) arrangement within the stated constants and "
                               "every operation of the alphabet from it; engine B is seeded sampling",
           "checker_cmd": "tlc MCQueue.tla (invariants) ; pqverif run ; tlc TraceQueue.tla (trace validation)"}
    vlib.write_evidence(prop, tier, seed, P["level"], cov, time.time() - t0, len(violations) + len(abort_v), ASSUMPTIONS)
    log("[%s] %s: %d violations, %d known findings, wall %.1fs" % (prop, tier, len(violations) + len(abort_v),
                                                                 len(known_hits), time.time() - t0))
    return rc


def witness_search(prop, fails):
    g = engines.Findings()
    cases = []
    for n, fl in enumerate(fails):
        evs = vlib.Events(fl["events"])
        cause, cl = evs.cause(fl["line"])
        e = evs.ev(fl["line"])
        sn = e.get("snap")
        if not sn:
            continue
        wd = vlib.workdir("%s_witness_%d" % (prop, n))
        sp = os.path.join(wd, "state.ndjson")
        json.dump({"keys": sn["keys"], "pri": sn["r"], "heap": sn["heap"], "qp": sn["qp"], "size": sn["size"]}, open(sp, "w"))
        kind = fl["kind"]
        cont = None
        for depth in (2, 3, 4):
            try:
                mc = vlib.run_mc("MCWitness", {"Kind": vlib.tla_str(kind), "MaxDepth": str(depth), "ExtraPrios": "1"},
                                 ["NoWitness"], wd, env={"WSTATE": sp}, timeout=40, allow_violation=True)
            except ToolError:
                log("[witness] search of depth %d gave up after 40 s" % depth)
                break
            for line in open(mc["out"]):
                if line.startswith('<<"WITNESS", "'):
                    cont = json.loads(vlib.unescape_tla(line.strip()[len('<<"WITNESS", "'):-3]))
                    break
            if cont is not None:
                break
        if cont is None:
            log("[witness] TLC found no continuation of depth <= 4 exposing the raw order breach after %s (%s): layout drift"
                % (fl["cause_op"], kind))
            continue
        peeks = [{"op": "peek"}] if kind == "pq" else [{"op": "peek_min"}, {"op": "peek_max"}]
        pops = [{"op": "pop"}] if kind == "pq" else [{"op": "pop_min"}, {"op": "pop_max"}]
        case = dict(fl["case"])
        cid, cstart = evs.case_of(fl["line"])
        if fl["phase"] == "hist":
            # events of the history: reset, (auto new), one per step
            auto_new = 0 if (case["steps"] and case["steps"][0].get("op") in ("new", "from_vec", "from_iter", "de")) else 1
            idx = cl - cstart - 1 - auto_new
            case["steps"] = case["steps"][:idx + 1] + cont + peeks + pops
            case["probes"] = []
        else:
            def same(p):
                o = (p if isinstance(p, list) else [p])[-1] if False else (p if isinstance(p, list) else [p])
                return any(x.get("op") == cause["op"] and x.get("k") == cause.get("k") and
                           (("r" not in x) or x.get("r") == cause.get("r")) for x in o)
            def cut(p):
                o = p if isinstance(p, list) else [p]
                for j, x in enumerate(o):
                    if x.get("op") == cause["op"] and x.get("k") == cause.get("k"):
                        return o[:j + 1]
                return o
            tq = cause.get("q", 1)
            sel = [p for p in case.get("probes", []) if same(p)][:6]
            case["probes"] = [cut(p) + [dict(x, q=tq) for x in cont + peeks + pops] for p in sel]
        case["wit"] = ["sorted:pop", "sorted:pop_min", "sorted:pop_max"]
        case["case"] = ["witness", n, case.get("case")]
        cases.append(case)
        log("[witness] raw order breach after %s (%s): TLC proposes the continuation %s" % (fl["cause_op"], kind, json.dumps(cont)))
        case["origin_op"] = fl["cause_op"]
    if cases:
        engines.replay_and_validate(cases, vlib.workdir(prop + "_witness_replay"), "witness", g, count=False)
        for fl in g.fails:
            fl["origin_op"] = (fl["case"] or {}).get("origin_op")
    return g


def minimise(case, fl):
    """keep the history and only the probe that failed (the probe index is not logged; keep probes whose first
    op equals the cause op)"""
    if not case:
        return case
    c = dict(case)
    pr = c.get("probes") or []
    keep = []
    for p in pr:
        ops = p if isinstance(p, list) else [p]
        if any(o.get("op") == fl["cause_op"] for o in ops):
            keep.append(p)
    c["probes"] = keep if keep else pr
    return c


def replay(prop, path):
    payload = json.load(open(path))
    case = payload["case"]
    wd = vlib.workdir("replay_" + prop)
    f = engines.Findings()
    engines.replay_and_validate([case], wd, "replay", f, count=False)
    P = PROPS[prop]
    rel = [fl for fl in f.fails if P["relevant"](fl)]
    for fl in rel[:10]:
        log("   kind=%s op=%s tags=%s event=%s" % (fl["kind"], fl["cause_op"], fl["tags"], json.dumps(fl["event"])[:300]))
    if rel or (P.get("aborts") and f.aborts):
        log("VIOLATION property=%s replay=%s" % (prop, path))
        return 1
    log("replay: property %s holds on this case" % prop)
    return 0
