"""Per-property check definitions: which engines run with which scope, which failure classes of
the trace specification concern the property, how violations are reported."""
import json
import os
import time

import vlib
import engines
from vlib import log, ToolError

# ---------------------------------------------------------------------------------------------
# failure classes (tags printed by the trace specifications)
# ---------------------------------------------------------------------------------------------
ORDER_TAGS = {"peek_none", "peek_stored", "peek_extreme", "pop_none", "pop_stored", "pop_extreme",
              "popif_none", "popif_stored", "popif_extreme", "popif_seen", "same_as_peek",
              "sorted_order", "sorted_missing", "sorted_dup_or_unknown", "sorted_elem", "sorted_count",
              "sorted_after_end", "sorted_len", "sorted_calls", "order"}
CONTENT_TAGS = {"ret", "contents", "tag", "len", "is_empty", "iter", "into_iter", "into_vec", "get",
                "get_borrowed", "setter_calls", "peek_stored", "pop_stored", "peek_none", "pop_none",
                "popif_stored", "popif_none", "popif_seen", "sorted_missing", "sorted_dup_or_unknown",
                "sorted_elem", "sorted_count", "retain_calls", "itermut_elem", "bulk_contents",
                "append_contents", "append_other_nonempty", "unknown_op"}
SAFETY_TAGS = {"panic", "wf", "abort"}
ALL = None  # every tag

PUSHDIR = {"push_increase", "push_decrease"}
UPDATES = {"push", "change_priority", "change_priority_by"} | PUSHDIR
BULK = {"extend", "from_vec", "from_iter", "append", "convert"}
INPLACE = {"retain", "retain_mut", "iter_mut", "pop_if", "pop_min_if", "pop_max_if"}
READS = {"peek", "peek_min", "peek_max", "peek_mut", "peek_min_mut", "peek_max_mut", "get", "get_priority",
         "get_mut", "debug"}
POPS = {"pop", "pop_min", "pop_max"}
BASIC = UPDATES | {"remove", "clear"} | POPS | READS


def opname(p):
    return p["op"]


def light(p):
    """probe subset executed on the real code from every state (the model's own transition relation
    still uses the whole alphabet): drops most two-pair extends and retain_mut rewrites of dropped keys"""
    if p["op"] == "extend":
        pr = p["pairs"]
        return len(pr) <= 1 or pr[0][0] == pr[1][0] or (pr[0][1] == 0 and pr[1][1] == 1 and p["hint"] == [])
    if p["op"] == "retain_mut":
        st = p["set"]
        return not st or all(k in p["keep"] for k in st)
    return True


def sig_of(fl):
    """structural signature of a failure, for the known-findings file"""
    c = fl.get("cause", {})
    return {"kind": fl["kind"], "op": fl["cause_op"], "event_op": fl["op"], "tags": fl["tags"],
            "hint": c.get("hint"), "it": c.get("it"), "adapt": c.get("adapt"), "engine": fl["engine"].split("/")[0],
            "msg": (fl.get("event", {}).get("msg") or c.get("msg") or "")[:60]}


# ---------------------------------------------------------------------------------------------
# property definitions: run(tier, seed) -> Findings, relevant(failure) -> bool
# ---------------------------------------------------------------------------------------------
def scope(tier, quick, thorough):
    return thorough if tier == "thorough" else quick


def p_C01(tier, seed):
    n, mp = scope(tier, (4, 2), (5, 2))
    f = engines.engine_A("C01", ["pq"], n, mp, light, ["sorted:pop"])
    nh, nk, no = scope(tier, (16, [16, 24, 40], 300), (64, [16, 33, 64, 100], 1500))
    f.merge(engines.engine_B("C01", ["pq"], seed, nh, nk, no))
    return f


def p_C02(tier, seed):
    n, mp = scope(tier, (4, 2), (5, 2))
    f = engines.engine_A("C02", ["dpq"], n, mp, light, ["sorted:pop_min", "sorted:pop_max", "sorted:alt"])
    nh, nk, no = scope(tier, (16, [16, 24, 40], 300), (64, [16, 33, 64, 100], 1500))
    f.merge(engines.engine_B("C02", ["dpq"], seed, nh, nk, no))
    return f


def p_C03(tier, seed):
    n, mp = scope(tier, (3, 2), (5, 2))
    f = engines.engine_A("C03", ["pq", "dpq"], n, mp, light, ["contents"])
    nh, nk, no = scope(tier, (8, [8, 20], 300), (32, [8, 20, 50], 1500))
    f.merge(engines.engine_B("C03", ["pq", "dpq"], seed, nh, nk, no, check_every=5))
    return f


def p_C04(tier, seed):
    n, mp = scope(tier, (3, 2), (5, 2))

    def extra(kind, keys, maxp):
        # leaked iter_mut guards (order unspecified afterwards) followed by further operations
        pm = "pop" if kind == "pq" else "pop_max"
        out = []
        for cnt in range(0, len(keys) + 1):
            for k in keys:
                out.append([{"op": "iter_mut", "n": cnt, "set": {k: maxp}, "forget": True},
                            {"op": pm}, {"op": "push", "k": keys[0], "r": 0}, {"op": "remove", "k": k},
                            {"op": "retain", "keep": keys[:-1]}, {"op": pm}])
        return out
    f = engines.engine_A("C04", ["pq", "dpq"], n, mp, light, ["contents"], extra_probes=extra)
    nh, nk, no = scope(tier, (8, [16, 40], 300), (32, [16, 40, 100], 1500))
    f.merge(engines.engine_B("C04", ["pq", "dpq"], seed, nh, nk, no))
    return f


def p_C11(tier, seed):
    n, mp = scope(tier, (4, 2), (5, 2))
    wit = ["contents", "sorted:pop", "sorted:pop_min", "sorted:pop_max"]
    f = engines.engine_A("C11", ["pq", "dpq"], n, mp, lambda p: p["op"] in PUSHDIR, wit)
    nh, nk, no = scope(tier, (8, [16, 30], 300), (32, [16, 30, 60], 1500))
    f.merge(engines.engine_B("C11", ["pq", "dpq"], seed, nh, nk, no,
                             weights={"push_increase": 30, "push_decrease": 30, "push": 15}))
    return f


def p_C12(tier, seed):
    n, mp = scope(tier, (3, 2), (5, 2))

    def extra(kind, keys, maxp):
        out = []
        for k in keys:
            for b in (0, 1):
                out.append([{"op": "get_mut", "k": k, "b": b, "wp": 1}, {"op": "push", "k": k, "r": maxp},
                            {"op": "change_priority", "k": k, "r": 0, "b": 1 - b}, {"op": "get", "k": k, "b": b}])
                out.append([{"op": "change_priority_by", "k": k, "r": 1, "b": b}, {"op": "remove", "k": k, "b": b}])
        return out
    flt = lambda p: p["op"] in UPDATES or p["op"] in READS or p["op"] in {"remove"}
    f = engines.engine_A("C12", ["pq", "dpq"], n, mp, flt, ["contents"], extra_probes=extra)
    nh, nk, no = scope(tier, (8, [8, 20], 300), (32, [8, 20, 50], 1500))
    f.merge(engines.engine_B("C12", ["pq", "dpq"], seed, nh, nk, no, check_every=5,
                             weights={"peek": 12, "get": 12, "iter_mut": 3, "change_priority": 15}))
    return f


PROPS = {
    "C01": {"run": p_C01, "level": "model_checking",
            "relevant": lambda fl: fl["kind"] == "pq" and bool(set(fl["tags"]) & ORDER_TAGS)},
    "C02": {"run": p_C02, "level": "model_checking",
            "relevant": lambda fl: fl["kind"] == "dpq" and bool(set(fl["tags"]) & ORDER_TAGS)},
    "C03": {"run": p_C03, "level": "model_checking",
            "relevant": lambda fl: bool(set(fl["tags"]) & CONTENT_TAGS)},
    "C04": {"run": p_C04, "level": "model_checking", "aborts": True,
            "relevant": lambda fl: bool(set(fl["tags"]) & SAFETY_TAGS)},
    "C11": {"run": p_C11, "level": "model_checking",
            "relevant": lambda fl: fl["cause_op"] in PUSHDIR},
    "C12": {"run": p_C12, "level": "model_checking",
            # (the stored item written by the bulk operations is C07's business)
            "relevant": lambda fl: (bool(set(fl["tags"]) & {"payload", "get_borrowed"}) and fl["cause_op"] not in BULK)
            or (fl["cause"].get("b") == 1 and bool(set(fl["tags"]) & {"ret", "contents"}))},
}

ASSUMPTIONS = [
    "the concrete TLA+ layer is a hand transcription of the Rust code; its faithfulness is measured (drift) not proved",
    "exhaustive statements hold within the stated constants (items, priority values); beyond them the evidence is seeded sampling validated by the same specification",
    "IndexMap / hashbrown / std internals are trusted",
    "the harness only executes and records; every judgement is a TLA+ predicate evaluated by TLC",
]


def run(prop, tier, seed, t0):
    P = PROPS[prop]
    f = P["run"](tier, seed)
    known = vlib.load_known()
    violations = []
    known_hits = {}
    other = 0
    # a raw heap-order breach of the snapshot counts only together with a behavioural witness in the same
    # case (a peek/pop/sorted observation of a non-extreme element); alone it is layout drift
    witnessed = {fl["caseid"] for fl in f.fails if set(fl["tags"]) & (ORDER_TAGS - {"order"})}
    for fl in f.fails:
        if "order" in fl["tags"] and fl["caseid"] not in witnessed:
            fl["tags"] = [t for t in fl["tags"] if t != "order"]
            f.drift.append({"op": fl["cause_op"], "what": "raw_order_without_witness", "engine": fl["engine"]})
            if not fl["tags"]:
                continue
        if not P["relevant"](fl):
            other += 1
            continue
        k = vlib.match_known(prop, sig_of(fl), known)
        if k is not None:
            known_hits.setdefault(k["id"], [k, 0])[1] += 1
        else:
            violations.append(fl)
    abort_v = []
    if P.get("aborts"):
        for ab in f.aborts:
            sig = {"kind": ab["case"].get("kind"), "op": "abort", "tags": ["abort"], "engine": ab["engine"].split("/")[0]}
            k = vlib.match_known(prop, sig, known)
            if k is not None:
                known_hits.setdefault(k["id"], [k, 0])[1] += 1
            else:
                abort_v.append(ab)
    elif f.aborts:
        log("NOTE: %d harness process deaths in this run (judged by C04/C10, not by %s)" % (len(f.aborts), prop))
    for kid, (k, cnt) in sorted(known_hits.items()):
        log("KNOWN-FINDING: property=%s %s [%s, %d occurrences]" % (prop, k["description"], kid, cnt))
    if other:
        log("NOTE: %d failing events of classes that other properties judge (not %s)" % (other, prop))
    if f.drift:
        kinds = {}
        for d in f.drift:
            kinds[(d["op"], d["what"].split(",")[0])] = kinds.get((d["op"], d["what"].split(",")[0]), 0) + 1
        log("DRIFT (model no longer mirrors the code; information, not a violation): %d events %s"
            % (len(f.drift), sorted(kinds.items())[:8]))
    rc = 0
    shown = set()
    for fl in violations:
        key = (fl["kind"], fl["cause_op"], tuple(sorted(fl["tags"])))
        if key in shown:
            continue
        shown.add(key)
        case = dict(fl["case"] or {})
        payload = {"property": prop, "engine": fl["engine"], "kind": fl["kind"], "hasher": fl["hasher"],
                   "tags": fl["tags"], "failing_event": fl["event"], "cause": fl["cause"], "case": minimise(case, fl)}
        path = vlib.save_replay(prop, payload)
        log("VIOLATION property=%s replay=%s" % (prop, path))
        log("   kind=%s op=%s tags=%s event=%s" % (fl["kind"], fl["cause_op"], fl["tags"], json.dumps(fl["event"])[:300]))
        rc = 1
        if len(shown) >= 10:
            break
    for ab in abort_v[:5]:
        path = vlib.save_replay(prop, {"property": prop, "engine": ab["engine"], "tags": ["abort"], "case": ab["case"],
                                       "stderr": ab["stderr"], "rc": ab["rc"]})
        log("VIOLATION property=%s replay=%s" % (prop, path))
        log("   harness process died (rc=%s): %s" % (ab["rc"], ab["stderr"][-200:].replace("\n", " ")))
        rc = 1
    st = f.stats
    cov = {"states": st["states"], "transitions": st["transitions"],
           "traces_validated_against_impl": st["traces_ok"],
           "evaluations": st["events"], "distinct_nontrivial": st["distinct_nontrivial"],
           "rule": "evaluations = events (public calls) executed on the real code and judged by TLC; a case is "
                   "non-trivial if the call changed the raw state or returned Some/true; distinct = different "
                   "(kind, op, arguments, pre-state) - counted on up to 4 shards per engine, i.e. conservatively",
           "samples": f.samples[:4], "engines": st["engines"], "cases_replayed": st["cases"],
           "drift_events": len(f.drift), "failing_events_other_properties": other,
           "known_findings_reproduced": {k: v[1] for k, v in known_hits.items()},
           "exhaustive": True,
           "exhaustive_scope": "engine A: every reachable (pri, heap, qp) arrangement within the stated constants and "
                               "every operation of the alphabet from it; engine B is seeded sampling",
           "checker_cmd": "tlc MCQueue.tla (invariants) ; pqverif run ; tlc TraceQueue.tla (trace validation)"}
    vlib.write_evidence(prop, tier, seed, P["level"], cov, time.time() - t0, len(violations) + len(abort_v), ASSUMPTIONS)
    log("[%s] %s: %d violations, %d known findings, wall %.1fs" % (prop, tier, len(violations) + len(abort_v),
                                                                 len(known_hits), time.time() - t0))
    return rc


def minimise(case, fl):
    """keep the history and only the probe that failed (the probe index is not logged; keep probes whose first
    op equals the cause op)"""
    if not case:
        return case
    c = dict(case)
    pr = c.get("probes") or []
    keep = []
    for p in pr:
        ops = p if isinstance(p, list) else [p]
        if any(o.get("op") == fl["cause_op"] for o in ops):
            keep.append(p)
    c["probes"] = keep if keep else pr
    return c


def replay(prop, path):
    payload = json.load(open(path))
    case = payload["case"]
    wd = vlib.workdir("replay_" + prop)
    f = engines.Findings()
    engines.replay_and_validate([case], wd, "replay", f, count=False)
    P = PROPS[prop]
    rel = [fl for fl in f.fails if P["relevant"](fl)]
    for fl in rel[:10]:
        log("   kind=%s op=%s tags=%s event=%s" % (fl["kind"], fl["cause_op"], fl["tags"], json.dumps(fl["event"])[:300]))
    if rel or (P.get("aborts") and f.aborts):
        log("VIOLATION property=%s replay=%s" % (prop, path))
        return 1
    log("replay: property %s holds on this case" % prop)
    return 0
