"""Orchestration library for the priority-queue verification framework.

Pipeline (DESIGN.md section 5):  cargo build -> TLC (model checking, emits covering histories)
-> harness replays them on the real code -> TLC validates the recorded traces -> classify.
This file contains no oracle: every judgement comes from TLC output (FAIL / DRIFT lines of the
trace specifications, invariant violations of the MC modules).
"""
import hashlib
import json
import os
import re
import shutil
import subprocess
import sys
import time
from concurrent.futures import ThreadPoolExecutor

VERIF = os.path.dirname(os.path.abspath(__file__))
SPEC = os.path.join(VERIF, "spec")
HARNESS = os.path.join(VERIF, "harness")
OUT = os.path.join(VERIF, "out")
EVID = os.path.join(VERIF, "evidence")
BIN = os.path.join(HARNESS, "target", "release", "pqverif")
TLA_CP = "/opt/veriftools/tla/tla2tools.jar:/opt/veriftools/tla/CommunityModules-deps.jar"
TLAPS_LIB = "/opt/veriftools/tlapm/lib/tlapm/stdlib"      # TLAPS.tla (TableLemma.tla is also read by TLC)
NCPU = min(16, os.cpu_count() or 4)


def run_tlapm(module, wd, timeout=1800):
    """check the proofs of spec/<module>.tla with the TLA+ proof system; returns (obligations, proved)"""
    import shutil as _sh
    src = os.path.join(SPEC, module + ".tla")
    dst = os.path.join(wd, module + ".tla")
    _sh.copy(src, dst)
    # The back-end provers run under wall-clock limits, so on a loaded machine an obligation can time out that is
    # proved in a second otherwise: the first attempt starts from a clean fingerprint cache, further attempts keep
    # what was proved and give the remaining obligations 4x / 10x the time.
    res = None
    for attempt, extra in enumerate((["--cleanfp"], ["--stretch", "4"], ["--stretch", "10"])):
        try:
            rc, out = sh(["tlapm", "--threads", "8"] + extra + [module + ".tla"], cwd=wd, timeout=timeout)
        except subprocess.TimeoutExpired:
            raise ToolError("tlapm timed out on " + module)
        open(os.path.join(wd, module + ".tlapm.%d.out" % attempt), "w").write(out)
        m = re.search(r"All (\d+) obligations? proved", out)
        if m:
            return int(m.group(1)), int(m.group(1)), out
        m = re.search(r"(\d+)/(\d+) obligations? failed", out)
        if not m:
            raise ToolError("tlapm: unexpected output for %s: %s" % (module, out[-500:]))
        res = (int(m.group(2)), int(m.group(2)) - int(m.group(1)), out)
        log("[tlapm] attempt %d: %d of %d obligations not proved (time limit?) - retrying with more time" % (attempt + 1, res[0] - res[1], res[0]))
    return res

WITNESS_OPS = {"contents", "sorted"}


class ToolError(Exception):
    pass


def log(*a):
    print(*a, flush=True)


def sh(cmd, cwd=None, env=None, timeout=None, capture=True):
    e = dict(os.environ)
    if env:
        e.update(env)
    p = subprocess.run(cmd, cwd=cwd, env=e, timeout=timeout, stdout=subprocess.PIPE if capture else None,
                       stderr=subprocess.STDOUT if capture else None, text=True)
    return p.returncode, (p.stdout or "")


def build():
    """offline build of the harness against /repo's current working tree (cargo notices edits)."""
    t = time.time()
    rc, out = sh(["cargo", "build", "--release", "--offline"], cwd=HARNESS,
                 env={"CARGO_NET_OFFLINE": "true"}, timeout=1200)
    if rc != 0:
        log(out[-4000:])
        raise ToolError("harness build failed (does /repo still compile with --cfg priority_queue_verif?)")
    return time.time() - t


def workdir(name):
    d = os.path.join(OUT, name)
    shutil.rmtree(d, ignore_errors=True)
    os.makedirs(d)
    return d


def java_tlc(args, cwd, env=None, timeout=3600, xmx="4g", xss=None, deque=False, gcthreads=None):
    if gcthreads:
        # many single-worker validators side by side: serial GC, few JIT threads, no perf-data mmap
        cmd = ["java", "-XX:+UseSerialGC", "-XX:CICompilerCount=2", "-XX:-UsePerfData", "-Xmx" + xmx]
    else:
        cmd = ["java", "-XX:+UseParallelGC", "-XX:-UsePerfData", "-Xmx" + xmx]
    if xss:
        cmd.append("-Xss" + xss)
    if deque:
        cmd.append("-Dtlc2.tool.queue.IStateQueue=StateDeque")
    cmd += ["-DTLA-Library=" + TLAPS_LIB, "-cp", TLA_CP, "tlc2.TLC"] + args
    try:
        return sh(cmd, cwd=cwd, env=env, timeout=timeout)
    except subprocess.TimeoutExpired:
        raise ToolError("TLC timed out: " + " ".join(args))


def tla_str(s):
    return '"' + s + '"'


def tla_set(xs):
    return "{" + ", ".join(tla_str(x) for x in xs) + "}"


def unescape_tla(s):
    # TLC prints strings with \" and \\ escapes
    return s.replace('\\"', '"').replace("\\\\", "\\")


def run_mc(module, constants, invariants, wd, workers=None, view="View", timeout=3600, xmx="8g",
           init="Init", nxt="Next", extra_cfg="", simulate=None, seed=None, cont=False, env=None,
           allow_violation=False, depth=None):
    """run TLC on spec/<module>.tla with a generated cfg; returns parsed result."""
    cfg = ["CONSTANTS"] + ["  %s = %s" % kv for kv in constants.items()]
    cfg += ["INIT " + init, "NEXT " + nxt]
    if invariants:
        cfg += ["INVARIANTS " + " ".join(invariants)]
    if view:
        cfg += ["VIEW " + view]
    cfg += ["CHECK_DEADLOCK FALSE", extra_cfg]
    cfgp = os.path.join(wd, module + ".cfg")
    open(cfgp, "w").write("\n".join(cfg) + "\n")
    args = ["-workers", str(workers or NCPU), "-metadir", os.path.join(wd, "meta"), "-cleanup",
            "-noGenerateSpecTE", "-config", cfgp]
    if cont:
        args = ["-continue"] + args
    if depth:
        args = ["-depth", str(depth)] + args
    if simulate:
        args = ["-simulate", simulate] + args
        if seed is not None:
            args = ["-seed", str(seed)] + args
    args.append(os.path.join(SPEC, module + ".tla"))
    t = time.time()
    rc, out = java_tlc(args, cwd=SPEC, timeout=timeout, xmx=xmx, xss="512m", env=env)
    outp = os.path.join(wd, module + ".out")
    open(outp, "w").write(out)
    res = {"rc": rc, "out": outp, "wall": time.time() - t, "replay": [], "probes": None,
           "generated": 0, "distinct": 0, "violated": [], "errors": []}
    for line in out.splitlines():
        if line.startswith('<<"REPLAY", "'):
            res["replay"].append(json.loads(unescape_tla(line[len('<<"REPLAY", "'):-3])))
        elif line.startswith('<<"PROBES", "'):
            res["probes"] = json.loads(unescape_tla(line[len('<<"PROBES", "'):-3]))
        else:
            m = re.match(r"(\d+) states generated, (\d+) distinct states found", line)
            if m:
                res["generated"], res["distinct"] = int(m.group(1)), int(m.group(2))
            m = re.match(r"Error: Invariant (\w+) is violated", line)
            if m:
                res["violated"].append(m.group(1))
            elif line.startswith("Error:") and "Invariant" not in line:
                res["errors"].append(line)
    ok = "Model checking completed. No error has been found." in out or simulate
    if not ok and not res["violated"]:
        log(out[-3000:])
        raise ToolError("TLC failed on %s (see %s)" % (module, outp))
    return res


def write_cases(cases, wd, shards):
    """split the cases into shard files: at least `shards`, and more when the cases are heavy, so that one
    shard's recorded trace stays around 30 MB (a trace validator loads its whole trace)"""
    def weight(c):
        w = len(c.get("steps", [])) + 2
        for p in c.get("probes", []):
            w += (len(p) if isinstance(p, list) else 1) + 3
        sw = c.get("sweep")
        if sw:
            w += 40 * max(1, len(sw.get("ops", []))) * max(1, len(sw.get("conts", [])))
        return w * (1 + len(c.get("wit", [])))
    total = sum(weight(c) for c in cases)
    shards = max(1, min(max(shards, total // 250000 + 1), len(cases)))   # ~ 60-70 k events (25-30 MB) per shard
    files = [os.path.join(wd, "cases_%03d.ndjson" % i) for i in range(shards)]
    fh = [open(f, "w") for f in files]
    load = [0] * shards
    for c in sorted(cases, key=weight, reverse=True):
        i = load.index(min(load))
        fh[i].write(json.dumps(c) + "\n")
        load[i] += weight(c)
    for f in fh:
        f.close()
    return files


def run_harness(case_files, wd, timeout=3600):
    """execute the cases on the real code.  A death of the harness process (abort from std's
    unsafe-precondition checks, signal) is data: it is recorded with the case that caused it and
    the remaining cases of the shard are executed by a fresh process."""
    def one(cf):
        ef = cf.replace("cases_", "events_")
        aborts = []
        cases = open(cf).read().splitlines()
        done = 0
        open(ef, "w").close()
        part = 0
        while done < len(cases):
            cur = cf if done == 0 else cf + ".rest%d" % part
            if done > 0:
                open(cur, "w").write("\n".join(cases[done:]) + "\n")
            tmp = ef + ".part"
            try:
                rc, out = sh([BIN, "run", cur, tmp], timeout=timeout)
            except subprocess.TimeoutExpired:
                raise ToolError("harness timed out on " + cur)
            if rc == 2 or "harness:" in out:
                raise ToolError("harness error (not a finding about the code under test): " + out[-500:])
            lines = open(tmp, "rb").read().split(b"\n")
            if rc == 0:
                with open(ef, "ab") as f:
                    f.write(b"\n".join(l for l in lines if l) + b"\n")
                break
            # died: keep the complete lines, find the case that was running
            good = []
            for l in lines:
                if not l:
                    continue
                try:
                    json.loads(l)
                    good.append(l)
                except Exception:
                    break
            nreset = sum(1 for l in good if b'"op":"reset"' in l)
            k = done + max(nreset - 1, 0)
            aborts.append({"case": json.loads(cases[k]), "rc": rc, "stderr": out[-600:]})
            # events of the aborted case are dropped (its trace is incomplete)
            cut = len(good)
            for i in range(len(good) - 1, -1, -1):
                if b'"op":"reset"' in good[i]:
                    cut = i
                    break
            with open(ef, "ab") as f:
                if good[:cut]:
                    f.write(b"\n".join(good[:cut]) + b"\n")
            done = k + 1
            part += 1
        if os.path.exists(ef + ".part"):
            os.remove(ef + ".part")
        return {"cases": cf, "events": ef, "aborts": aborts, "ncases": len(cases)}
    with ThreadPoolExecutor(max_workers=NCPU) as ex:
        return list(ex.map(one, case_files))


FAIL_RE = re.compile(r'^<<"FAIL", (\d+), "([^"]*)", "([^"]*)", \{(.*)\}>>$')
DRIFT_RE = re.compile(r'^<<"DRIFT", (\d+), "([^"]*)", (.*)>>$')
NOTE_RE = re.compile(r'^<<"NOTE", (.*)>>$')


def validate(event_files, wd, module="TraceQueue", timeout=3600, nodrift=False):
    """TLC trace validation of each events file; returns per-file results."""
    cfgp = os.path.join(SPEC, module + ".cfg")

    def one(ef):
        idx = re.search(r"(\d+)\.ndjson$", ef).group(1)
        env = {"TRACE": ef}
        if nodrift:
            env["NODRIFT"] = "1"
        args = ["-workers", "1", "-metadir", os.path.join(wd, "vmeta_" + idx), "-cleanup", "-noGenerateSpecTE",
                "-config", cfgp, os.path.join(SPEC, module + ".tla")]
        t = time.time()
        rc, out = java_tlc(args, cwd=SPEC, env=env, timeout=timeout, xmx="2g", xss="1g", deque=True, gcthreads=2)
        op = os.path.join(wd, "validate_%s.out" % idx)
        open(op, "w").write(out)
        r = {"events": ef, "out": op, "fails": [], "drift": [], "notes": [], "consumed": None, "wall": time.time() - t}
        for line in out.splitlines():
            m = FAIL_RE.match(line)
            if m:
                tags = [x.strip().strip('"') for x in m.group(4).split(",") if x.strip()]
                r["fails"].append({"line": int(m.group(1)), "op": m.group(2), "kind": m.group(3), "tags": tags})
                continue
            m = DRIFT_RE.match(line)
            if m:
                r["drift"].append({"line": int(m.group(1)), "op": m.group(2), "what": m.group(3)})
                continue
            m = re.match(r'^<<"CONSUMED", (\d+)>>$', line)
            if m:
                r["consumed"] = int(m.group(1))
        if r["consumed"] is None:
            if r["fails"]:
                # the validator stopped on a state it cannot evaluate AFTER having reported failures (typically a
                # corrupted raw state): the failures stand, the rest of this shard is not judged
                r["consumed"] = max(x["line"] for x in r["fails"])
                r["partial"] = True
                log("NOTE: validator stopped after line %d of %s (failures reported before that stand)" % (r["consumed"], ef))
            else:
                log(out[-3000:])
                raise ToolError("trace validator did not consume %s (see %s)" % (ef, op))
        return r
    with ThreadPoolExecutor(max_workers=NCPU) as ex:
        return list(ex.map(one, event_files))


class Events:
    """access to an events file for attribution of failures (indexed once, on demand)"""

    def __init__(self, path):
        self.path = path
        self._lines = None
        self._case = None
        self._cause = None

    def lines(self):
        if self._lines is None:
            self._lines = open(self.path).read().splitlines()
        return self._lines

    def ev(self, line):
        return json.loads(self.lines()[line - 1])

    def _index(self):
        if self._case is not None:
            return
        self._case = []
        self._cause = []
        self._firstclone = {}
        cur = (None, 0)
        lastop = {}
        for i, ln in enumerate(self.lines(), start=1):
            m = re.search(r'"op":"([a-z_]+)"', ln)
            op = m.group(1) if m else ""
            mq = re.search(r'"q":(-?\d+)', ln)
            q = int(mq.group(1)) if mq else 0
            if op == "reset":
                cur = (json.loads(ln)["case"], i)
                lastop = {}
            self._case.append(cur)
            if op == "clone" and cur[1] not in self._firstclone:
                self._firstclone[cur[1]] = i
            if op in WITNESS_OPS:
                self._cause.append(lastop.get(q, i))
            else:
                lastop[q] = i
                self._cause.append(i)

    def case_of(self, line):
        self._index()
        return self._case[line - 1]

    def phase(self, line):
        """'hist' while the history of a case is replayed, 'probe' once probing from its state began"""
        self._index()
        start = self._case[line - 1][1]
        fc = self._firstclone.get(start)
        return "probe" if fc is not None and line >= fc else "hist"

    def cause(self, line):
        """the operation a witness event observes: the last non-witness event on the same queue"""
        self._index()
        cl = self._cause[line - 1]
        return self.ev(cl), cl


def count_distinct_nontrivial(event_files, limit_files=None):
    """distinct (kind, op, arguments, pre-state) cases in which the operation changed the raw state or
    returned something; measured from the recorded traces of this run"""
    seen = set()
    total = 0
    drop = ("snap", "cmps", "cap", "caps", "pay", "t", "injected", "hs", "panic", "msg", "q", "gets")
    for ef in (event_files if limit_files is None else event_files[:limit_files]):
        last = {}
        with open(ef) as f:
            for ln in f:
                e = json.loads(ln)
                total += 1
                if e["op"] == "reset":
                    last = {}
                    continue
                q = e.get("q")
                sn = e.get("snap")
                pre = last.get(q)
                if sn is not None:
                    cur = (tuple(sn["heap"]), tuple(sn["qp"]), tuple(sn["r"]), tuple(sn["keys"]))
                    last[q] = cur
                else:
                    cur = None
                if e["op"] in ("iter_calls", "into_calls"):
                    # distinct (iterator, adaptor, call sequence, size); non-trivial if there was something to yield
                    if e.get("n0", 0) > 0:
                        cs = tuple((r.get("c"), r.get("st")) for r in e.get("res", []))
                        seen.add(hashlib.blake2b(repr((e.get("kind"), e.get("it"), e.get("adapt"), e.get("k"), cs,
                                                       e.get("n0"))).encode(), digest_size=12).digest())
                    continue
                if e["op"] in WITNESS_OPS or e["op"] in ("clone", "drop", "new"):
                    continue
                changed = pre != cur
                ret = e.get("ret")
                if changed or (ret not in (None, [], False)):
                    args = {k: v for k, v in e.items() if k not in drop}
                    # fresh tags inside nested records do not distinguish cases
                    key = hashlib.blake2b((json.dumps(args, sort_keys=True) + repr(pre)).encode(), digest_size=12).digest()
                    seen.add(key)
    return total, len(seen)


def write_evidence(prop, tier, seed, level, coverage, wall, violations, assumptions):
    os.makedirs(EVID, exist_ok=True)
    ev = {"property_id": prop, "tier": tier, "seed": seed, "level": level, "coverage": coverage,
          "assumptions": assumptions, "wall_s": round(wall, 2), "violations": violations}
    p = os.path.join(EVID, prop + ".json")
    with open(p, "w") as f:
        json.dump(ev, f, indent=1)
    return p


def load_known():
    p = os.path.join(VERIF, "known_findings.json")
    if not os.path.exists(p):
        return []
    return json.load(open(p)).get("findings", [])


def match_known(prop, sig, known):
    """sig: dict describing the violation; an entry matches if every key of its `match` agrees"""
    for k in known:
        if k.get("status") != "finding" or k.get("property") != prop:
            continue
        m = k.get("match", {})
        ok = True
        for key, want in m.items():
            have = sig.get(key)
            if isinstance(want, list):
                if isinstance(have, list):
                    if not set(have) & set(want):
                        ok = False
                elif have not in want:
                    ok = False
            elif have != want:
                ok = False
        if ok:
            return k
    return None


def save_replay(prop, payload):
    d = os.path.join(OUT, "replays")
    os.makedirs(d, exist_ok=True)
    h = hashlib.sha1(json.dumps(payload, sort_keys=True).encode()).hexdigest()[:10]
    p = os.path.join(d, "%s-%s.json" % (prop, h))
    json.dump(payload, open(p, "w"), indent=1)
    return p
