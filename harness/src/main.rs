#![allow(dead_code)]
//! pqverif: executes scripted cases against the real queues built from /repo's working tree.
//!   pqverif run <cases.ndjson> <events.ndjson>
mod interp;
mod q;
mod types;

use std::fs::File;
use std::io::{BufRead, BufReader, BufWriter, Write};

fn main() {
    let args: Vec<String> = std::env::args().collect();
    if args.len() < 2 {
        eprintln!("usage: pqverif run <cases.ndjson> <events.ndjson>");
        std::process::exit(2);
    }
    // panics of the code under test are data: keep stderr quiet, the message goes into the event
    // (a non-unwinding panic - std's unsafe-precondition check - is about to abort the process: say why)
    std::panic::set_hook(Box::new(|info| {
        let msg = format!("{}", info);
        if msg.contains("unsafe precondition") || msg.contains("harness:") || std::env::var("PQVERIF_VERBOSE").is_ok() {
            eprintln!("{}", msg);
        }
    }));
    match args[1].as_str() {
        "run" => {
            let inp = BufReader::new(File::open(&args[2]).expect("cases file"));
            let out = BufWriter::with_capacity(1 << 20, File::create(&args[3]).expect("events file"));
            let mut it = interp::Interp::new(out);
            let mut cases = 0u64;
            for line in inp.lines() {
                let line = line.unwrap();
                if line.trim().is_empty() {
                    continue;
                }
                let case: serde_json::Value = match serde_json::from_str(&line) {
                    Ok(v) => v,
                    Err(e) => {
                        eprintln!("bad case line: {}", e);
                        std::process::exit(2);
                    }
                };
                it.run_case(&case);
                cases += 1;
            }
            it.out.flush().unwrap();
            println!("{{\"cases\": {}, \"events\": {}}}", cases, it.nevents);
        }
        _ => {
            eprintln!("unknown command");
            std::process::exit(2);
        }
    }
}
