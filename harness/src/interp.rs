//! Interpreter: executes scripted operations on real queues and records one ndjson event per
//! call (arguments, results, panic flag, comparison count, raw snapshot).  It contains no
//! oracle: every judgement is made by the TLA+ trace specification.
use crate::on;
use crate::q::*;
use crate::types::*;
use serde_json::{json, Map, Value};
use std::collections::BTreeMap;
use std::io::Write;
use std::panic::{catch_unwind, AssertUnwindSafe};

pub fn el(y: &Y) -> Value {
    json!({"k": y.k, "pay": y.pay, "r": y.r, "t": y.t})
}
pub fn opt_el(o: Option<Y>) -> Value {
    match o {
        None => json!([]),
        Some(y) => json!([el(&y)]),
    }
}
pub fn opt_pri(o: Option<Pri>) -> Value {
    match o {
        None => json!([]),
        Some(p) => json!([{"r": p.r(), "t": p.tag}]),
    }
}
fn pri_ref(o: Option<&Pri>) -> Value {
    match o {
        None => json!([]),
        Some(p) => json!([{"r": p.r(), "t": p.tag}]),
    }
}
pub fn snap_json(s: &Snap) -> Value {
    json!({"heap": s.heap, "qp": s.qp, "size": s.size, "mlen": s.mlen,
           "keys": s.keys, "pay": s.pay, "r": s.r, "t": s.t})
}

/// amounts for the capacity operations: small numbers or classes near usize::MAX
pub fn amount(v: &Value) -> (usize, i64, &'static str) {
    if let Some(n) = v.as_u64() {
        return (n as usize, n.min(1 << 30) as i64, "small");
    }
    match v.as_str().unwrap_or("") {
        "max" => (usize::MAX, 1 << 30, "max"),
        "max-1" => (usize::MAX - 1, 1 << 30, "max"),
        "max/2" => (usize::MAX / 2, 1 << 30, "overflow"),
        "max/8" => (usize::MAX / 8, 1 << 30, "overflow"),
        "isize" => (isize::MAX as usize, 1 << 30, "overflow"),
        "2^45" => (1usize << 45, 1 << 30, "huge"),
        "2^40" => (1usize << 40, 1 << 30, "huge"),
        _ => (0, 0, "small"),
    }
}
pub fn hint_of(v: Option<&Value>) -> Option<(usize, Option<usize>)> {
    let v = v?;
    let a = v.as_array()?;
    if a.len() < 2 {
        return None; // exact: the plain vector iterator's own size_hint
    }
    let lo = a[0].as_u64().unwrap_or(0) as usize;
    let hi = match a[1].as_i64().unwrap_or(-1) {
        -1 => None,
        -2 => Some(usize::MAX),
        -3 => Some(usize::MAX / 2),
        -4 => Some(1usize << 16),
        -5 => Some(usize::MAX / 4),
        -6 => Some(1usize << 40),
        x => Some(x as usize),
    };
    Some((lo, hi))
}

pub struct Interp<W: Write> {
    pub qs: BTreeMap<i64, Q>,
    pub out: W,
    pub ctr: i64,
    pub universe: Vec<String>,
    pub hasher: String,
    pub kind: String,
    pub want_snap: bool,
    pub nevents: u64,
    pub case_id: Value,
    /// partial results that survive an unwinding operation (call lists)
    pub scratch: Vec<Value>,
    /// live-object counters at the start of the current case
    pub live0: (i64, i64),
}

fn s<'a>(op: &'a Value, f: &str) -> &'a str {
    op.get(f).and_then(|v| v.as_str()).unwrap_or("")
}
fn n(op: &Value, f: &str) -> i64 {
    op.get(f).and_then(|v| v.as_i64()).unwrap_or(0)
}
fn b(op: &Value, f: &str) -> bool {
    match op.get(f) {
        Some(Value::Bool(x)) => *x,
        Some(v) => v.as_i64().unwrap_or(0) != 0,
        None => false,
    }
}
fn end_of(name: &str) -> End {
    if name.contains("min") {
        End::Min
    } else {
        End::Max
    }
}

struct Ctx<'a> {
    ctr: &'a mut i64,
    universe: &'a [String],
    scratch: &'a mut Vec<Value>,
}
impl Ctx<'_> {
    fn fresh(&mut self) -> i64 {
        *self.ctr += 1;
        *self.ctr
    }
}

/// priorities of the generated fills: asc, desc, const, rand (xorshift)
pub fn gen_rank(pattern: &str, i: u64, n: u64, state: &mut u64) -> i64 {
    match pattern {
        "asc" => (i % 900) as i64 - 450 + (i / 900) as i64 % 1,
        "desc" => 450 - (i % 900) as i64,
        "const" => 0,
        _ => {
            *state ^= *state << 13;
            *state ^= *state >> 7;
            *state ^= *state << 17;
            let _ = n;
            (*state % 1800) as i64 - 900
        }
    }
}

fn pairs_of(op: &Value, cx: &mut Ctx, ev: &mut Map<String, Value>) -> Vec<(Item, Pri)> {
    let mut v = vec![];
    let mut logged = vec![];
    if let Some(g) = op.get("gen") {
        // generated input (cost engine): not logged pair by pair
        let cnt = g["n"].as_u64().unwrap_or(0);
        let pat = g["pattern"].as_str().unwrap_or("rand");
        let mut st = g["seed"].as_u64().unwrap_or(1) | 1;
        for i in 0..cnt {
            let r = gen_rank(pat, i, cnt, &mut st);
            let pre = g["prefix"].as_str().unwrap_or("k");
            let off = g["offset"].as_i64().unwrap_or(0);
            let fine = off + match pat { "asc" => i as i64, "desc" => -(i as i64), "const" => 0, _ => r * 1000 + (i as i64 % 1000) };
            v.push((Item::new(&format!("{}{}", pre, i), 0), Pri::new_raw(fine, 0)));
        }
        ev.insert("m".into(), json!(cnt));
        ev.insert("pairs".into(), json!([]));
        return v;
    }
    if let Some(a) = op.get("pairs").and_then(|x| x.as_array()) {
        for p in a {
            let k = p[0].as_str().unwrap_or("");
            let r = p[1].as_i64().unwrap_or(0);
            let pay = cx.fresh();
            let t = cx.fresh();
            logged.push(json!({"k": k, "pay": pay, "r": r, "t": t}));
            v.push((Item::new(k, pay), Pri::new(r, t)));
        }
    }
    ev.insert("pairs".into(), Value::Array(logged));
    v
}

/// operations on one queue
fn run<T: QApi>(q: &mut T, op: &Value, cx: &mut Ctx, ev: &mut Map<String, Value>) {
    let name = s(op, "op");
    match name {
        "push" | "push_increase" | "push_decrease" => {
            let k = s(op, "k");
            let (pay, t) = (cx.fresh(), cx.fresh());
            ev.insert("k".into(), json!(k));
            ev.insert("pay".into(), json!(pay));
            ev.insert("r".into(), json!(n(op, "r")));
            ev.insert("t".into(), json!(t));
            let (i, p) = (Item::new(k, pay), Pri::new(n(op, "r"), t));
            CMPS.with(|c| c.set(0));
            let ret = match name {
                "push" => q.push(i, p),
                "push_increase" => q.push_increase(i, p),
                _ => q.push_decrease(i, p),
            };
            ev.insert("ret".into(), opt_pri(ret));
        }
        "change_priority" => {
            let k = s(op, "k");
            let t = cx.fresh();
            ev.insert("k".into(), json!(k));
            ev.insert("r".into(), json!(n(op, "r")));
            ev.insert("t".into(), json!(t));
            ev.insert("b".into(), json!(b(op, "b") as i64));
            let p = Pri::new(n(op, "r"), t);
            CMPS.with(|c| c.set(0));
            let ret = if b(op, "b") {
                q.change_priority_b(k, p)
            } else {
                let probe = Item::new(k, cx.fresh());
                q.change_priority(&probe, p)
            };
            ev.insert("ret".into(), opt_pri(ret));
        }
        "change_priority_by" => {
            let k = s(op, "k");
            let t = cx.fresh();
            let r = n(op, "r");
            ev.insert("k".into(), json!(k));
            ev.insert("r".into(), json!(r));
            ev.insert("t".into(), json!(t));
            ev.insert("b".into(), json!(b(op, "b") as i64));
            let mut called = 0;
            let mut setter = |p: &mut Pri| {
                called += 1;
                tick(&FUEL_CB, "priority setter");
                *p = Pri::new(r, t);
            };
            CMPS.with(|c| c.set(0));
            let ret = if b(op, "b") {
                q.change_priority_by_b(k, &mut setter)
            } else {
                let probe = Item::new(k, cx.fresh());
                q.change_priority_by(&probe, &mut setter)
            };
            ev.insert("called".into(), json!(called));
            ev.insert("ret".into(), json!(ret));
        }
        "remove" => {
            let k = s(op, "k");
            ev.insert("k".into(), json!(k));
            ev.insert("b".into(), json!(b(op, "b") as i64));
            CMPS.with(|c| c.set(0));
            let ret = if b(op, "b") {
                q.remove_b(k)
            } else {
                let probe = Item::new(k, cx.fresh());
                q.remove(&probe)
            };
            ev.insert("ret".into(), opt_el(ret.map(|x| x.y())));
        }
        "peek" | "peek_min" | "peek_max" => {
            CMPS.with(|c| c.set(0));
            let ret = q.peek(end_of(name)).map(|x| x.y());
            ev.insert("ret".into(), opt_el(ret));
        }
        "peek_mut" | "peek_min_mut" | "peek_max_mut" => {
            let end = end_of(name);
            let pk = unfueled(|| q.peek(end).map(|x| x.y()));
            ev.insert("pk".into(), opt_el(pk));
            let newpay = cx.fresh();
            CMPS.with(|c| c.set(0));
            let mut wrote = vec![];
            let ret = q.peek_mut(end).map(|(i, p)| {
                let y = (&*i, p).y();
                if b(op, "wp") {
                    i.pay = newpay;
                    wrote.push(newpay);
                }
                y
            });
            ev.insert("ret".into(), opt_el(ret));
            ev.insert("newpay".into(), json!(wrote));
        }
        "pop" | "pop_min" | "pop_max" => {
            let end = end_of(name);
            let pk = unfueled(|| q.peek(end).map(|x| x.y()));
            ev.insert("pk".into(), opt_el(pk));
            CMPS.with(|c| c.set(0));
            let ret = q.pop(end).map(|x| x.y());
            ev.insert("ret".into(), opt_el(ret));
        }
        "pop_if" | "pop_min_if" | "pop_max_if" => {
            let end = end_of(name);
            let pk = unfueled(|| q.peek(end).map(|x| x.y()));
            ev.insert("pk".into(), opt_el(pk));
            let yes = b(op, "yes");
            let set = op.get("set").and_then(|v| v.as_array()).and_then(|a| a.first()).and_then(|v| v.as_i64());
            let t = cx.fresh();
            let newpay = cx.fresh();
            let wp = b(op, "wp");
            ev.insert("yes".into(), json!(yes));
            ev.insert("set".into(), match set { Some(r) => json!([{"r": r, "t": t}]), None => json!([]) });
            ev.insert("newpay".into(), if wp { json!([newpay]) } else { json!([]) });
            cx.scratch.clear();
            CMPS.with(|c| c.set(0));
            let ret = {
                let scratch = &mut *cx.scratch;
                q.pop_if(end, &mut |i, p| {
                    scratch.push(el(&(&*i, &*p).y()));
                    tick(&FUEL_CB, "pop_if predicate");
                    if let Some(r) = set {
                        *p = Pri::new(r, t);
                    }
                    if wp {
                        i.pay = newpay;
                    }
                    yes
                })
            };
            ev.insert("seen".into(), Value::Array(cx.scratch.clone()));
            ev.insert("ret".into(), opt_el(ret.map(|x| x.y())));
        }
        "get" | "get_priority" | "get_mut" => {
            let k = s(op, "k");
            ev.insert("k".into(), json!(k));
            ev.insert("b".into(), json!(b(op, "b") as i64));
            let probe = Item::new(k, cx.fresh());
            let newpay = cx.fresh();
            CMPS.with(|c| c.set(0));
            match name {
                "get" => {
                    let r = if b(op, "b") { q.get_b(k) } else { q.get(&probe) };
                    ev.insert("ret".into(), opt_el(r.map(|x| x.y())));
                }
                "get_priority" => {
                    let r = if b(op, "b") { q.get_priority_b(k) } else { q.get_priority(&probe) };
                    ev.insert("ret".into(), pri_ref(r));
                }
                _ => {
                    let mut wrote = vec![];
                    let r = if b(op, "b") { q.get_mut_b(k) } else { q.get_mut(&probe) };
                    let y = r.map(|(i, p)| {
                        let y = (&*i, p).y();
                        if b(op, "wp") {
                            i.pay = newpay;
                            wrote.push(newpay);
                        }
                        y
                    });
                    ev.insert("ret".into(), opt_el(y));
                    ev.insert("newpay".into(), json!(wrote));
                }
            }
        }
        "contents" => {
            CMPS.with(|c| c.set(0));
            ev.insert("len".into(), json!(q.len()));
            ev.insert("is_empty".into(), json!(q.is_empty()));
            ev.insert("iter".into(), Value::Array(q.iter_vec().iter().map(el).collect()));
            ev.insert("iter_ref".into(), Value::Array(q.iter_ref_vec().iter().map(el).collect()));
            let mut gets = vec![];
            for k in cx.universe.iter() {
                let probe = Item::new(k, -1);
                let g = q.get(&probe).map(|x| x.y());
                let gb = q.get_b(k).map(|x| x.y());
                let gp = pri_ref(q.get_priority(&probe));
                let gpb = pri_ref(q.get_priority_b(k));
                let gm = q.get_mut(&probe).map(|x| x.y());
                gets.push(json!({"k": k, "get": opt_el(g), "get_b": opt_el(gb), "gp": gp, "gp_b": gpb, "get_mut": opt_el(gm)}));
            }
            ev.insert("gets".into(), Value::Array(gets));
            let c1 = q.clone();
            ev.insert("into_iter".into(), Value::Array(c1.into_iter_vec().into_iter().map(|x| el(&x.y())).collect()));
            let c2 = q.clone();
            ev.insert("into_vec".into(), Value::Array(c2.into_vec().iter().map(|i| json!({"k": i.key, "pay": i.pay})).collect()));
        }
        "sorted" => {
            let mode = s(op, "mode");
            let calls: Vec<u8> = op.get("calls").and_then(|v| v.as_array()).map(|a| a.iter().map(|x| x.as_i64().unwrap_or(0) as u8).collect()).unwrap_or_default();
            ev.insert("mode".into(), json!(mode));
            ev.insert("calls".into(), json!(calls));
            let c = q.clone();
            CMPS.with(|c| c.set(0));
            match c.sorted(mode, &calls) {
                Ok(v) => {
                    let out: Vec<Value> = v.into_iter().map(|(y, l)| json!({"y": opt_el(y), "len": l})).collect();
                    ev.insert("out".into(), Value::Array(out));
                }
                Err(e) => panic!("harness: {}", e),
            }
        }
        "retain" | "retain_mut" => {
            let keep: Vec<String> = op.get("keep").and_then(|v| v.as_array()).map(|a| a.iter().map(|x| x.as_str().unwrap_or("").to_string()).collect()).unwrap_or_default();
            let set = op.get("set").and_then(|v| v.as_object()).cloned().unwrap_or_default();
            let wp = b(op, "wp");
            let rw = s(op, "rw").to_string();
            if !rw.is_empty() {
                // cost engine: keep every element, rewrite every priority (negated / by visiting index)
                CMPS.with(|c| c.set(0));
                let mut idx: i64 = 0;
                q.retain_mut(&mut |_i, p| {
                    idx += 1;
                    let nr = if rw == "neg" { -p.rank } else if rw == "idx" { idx } else { -idx };
                    *p = Pri::new_raw(nr, 0);
                    true
                });
                ev.insert("calls".into(), json!([]));
                return;
            }
            let keepmod = n(op, "keepmod");
            if keepmod > 0 {
                // cost engine: keep every element whose numeric suffix is not a multiple of keepmod; calls not logged
                CMPS.with(|c| c.set(0));
                let mut pred = |i: &Item| -> bool {
                    let d: String = i.key.chars().filter(|c| c.is_ascii_digit()).collect();
                    d.parse::<i64>().map(|x| x % keepmod != 0).unwrap_or(true)
                };
                if name == "retain_mut" {
                    q.retain_mut(&mut |i, _p| pred(i));
                } else {
                    q.retain(&mut |i, _p| pred(i));
                }
                ev.insert("calls".into(), json!([]));
                return;
            }
            cx.scratch.clear();
            let mutable = name == "retain_mut";
            let mut ctr = *cx.ctr;
            CMPS.with(|c| c.set(0));
            {
                let scratch = &mut *cx.scratch;
                if mutable {
                    q.retain_mut(&mut |i, p| {
                        let y = (&*i, &*p).y();
                        let kp = keep.iter().any(|k| *k == y.k);
                        let mut rec = el(&y);
                        rec["keep"] = json!(kp);
                        rec["set"] = json!([]);
                        rec["newpay"] = json!([]);
                        if let Some(r) = set.get(&y.k).and_then(|v| v.as_i64()) {
                            ctr += 1;
                            rec["set"] = json!([{"r": r, "t": ctr}]);
                        }
                        if wp {
                            ctr += 1;
                            rec["newpay"] = json!([ctr]);
                        }
                        scratch.push(rec.clone());
                        tick(&FUEL_CB, "retain_mut predicate");
                        if let Some(st) = rec["set"].as_array().and_then(|a| a.first()) {
                            *p = Pri::new(st["r"].as_i64().unwrap(), st["t"].as_i64().unwrap());
                        }
                        if let Some(np) = rec["newpay"].as_array().and_then(|a| a.first()) {
                            i.pay = np.as_i64().unwrap();
                        }
                        kp
                    });
                } else {
                    q.retain(&mut |i, p| {
                        let y = (i, p).y();
                        let kp = keep.iter().any(|k| *k == y.k);
                        let mut rec = el(&y);
                        rec["keep"] = json!(kp);
                        rec["set"] = json!([]);
                        rec["newpay"] = json!([]);
                        scratch.push(rec);
                        tick(&FUEL_CB, "retain predicate");
                        kp
                    });
                }
            }
            *cx.ctr = ctr;
            ev.insert("calls".into(), Value::Array(cx.scratch.clone()));
        }
        "iter_mut" => {
            let cnt = n(op, "n") as usize;
            let nb = n(op, "nb") as usize;
            let bf = b(op, "bf");
            ev.insert("bf".into(), json!(bf));
            let set = op.get("set").and_then(|v| v.as_object()).cloned().unwrap_or_default();
            let wp = b(op, "wp");
            let forget = b(op, "forget");
            let via_ref = b(op, "via_ref");
            ev.insert("nf".into(), json!(cnt));
            ev.insert("nb".into(), json!(nb));
            ev.insert("forget".into(), json!(forget));
            ev.insert("via_ref".into(), json!(via_ref));
            cx.scratch.clear();
            let mut ctr = *cx.ctr;
            CMPS.with(|c| c.set(0));
            {
                let scratch = &mut *cx.scratch;
                q.iter_mut_front(cnt, nb, bf, via_ref, forget, &mut |i, p| {
                    let y = (&*i, &*p).y();
                    let mut rec = el(&y);
                    rec["ai"] = json!(y.ai as u64 % 1_000_000_007);
                    rec["set"] = json!([]);
                    rec["newpay"] = json!([]);
                    if let Some(r) = set.get(&y.k).and_then(|v| v.as_i64()) {
                        ctr += 1;
                        rec["set"] = json!([{"r": r, "t": ctr}]);
                        *p = Pri::new(r, ctr);
                    }
                    if wp {
                        ctr += 1;
                        rec["newpay"] = json!([ctr]);
                        i.pay = ctr;
                    }
                    scratch.push(rec);
                });
            }
            *cx.ctr = ctr;
            ev.insert("ys".into(), Value::Array(cx.scratch.clone()));
        }
        "extend" => {
            let hint = hint_of(op.get("hint"));
            ev.insert("hint".into(), op.get("hint").cloned().unwrap_or(json!([])));
            ev.insert("len_before".into(), json!(q.len()));
            let v = pairs_of(op, cx, ev);
            CMPS.with(|c| c.set(0));
            q.extend_it(Hinted { it: v.into_iter(), hint });
        }
        "clear" => {
            CMPS.with(|c| c.set(0));
            q.clear();
        }
        "drain" => {
            // drain().take(n), guard dropped: the elements yielded
            let cnt = n(op, "n") as usize;
            ev.insert("n".into(), json!(cnt));
            let calls: Vec<(i64, usize)> = (0..cnt).map(|_| (0, 0)).collect();
            cx.scratch.clear();
            CMPS.with(|c| c.set(0));
            {
                let scratch = &mut *cx.scratch;
                q.with_iter("drain", "", 0, false, &mut |p| proto_calls(p, &calls, scratch));
            }
            let ys: Vec<Value> = cx.scratch.iter().filter_map(|r| r.get("y").and_then(|y| y.as_array()).and_then(|a| a.first().cloned())).collect();
            ev.insert("ys".into(), Value::Array(ys));
        }
        "fill" => {
            // cost engine: n muted pushes of k0..k(n-1) with a priority pattern; one event
            let cnt = n(op, "n") as u64;
            let pat = s(op, "pattern").to_string();
            let mut st = (n(op, "seed") as u64) | 1;
            for i in 0..cnt {
                let r = gen_rank(&pat, i, cnt, &mut st);
                // distinct ranks inside a pattern step keep asc/desc strictly monotone
                let fine = n(op, "offset") + match pat.as_str() { "asc" => i as i64, "desc" => -(i as i64), "const" => 0, _ => r * 1000 + (i as i64 % 1000) };
                let pre = if s(op, "prefix").is_empty() { "k" } else { s(op, "prefix") };
                q.push(Item::new(&format!("{}{}", pre, i), 0), Pri::new_raw(fine, 0));
            }
            CMPS.with(|c| c.set(0));
        }
        "reserve" | "reserve_exact" | "try_reserve" | "try_reserve_exact" | "shrink_to_fit" => {
            let (amt, logged, cls) = amount(op.get("n").unwrap_or(&Value::Null));
            ev.insert("n".into(), json!(logged));
            ev.insert("cls".into(), json!(cls));
            ev.insert("len".into(), json!(q.len()));
            ev.insert("cap_before".into(), json!(q.capacity().min(1 << 30)));
            CMPS.with(|c| c.set(0));
            let ret = match name {
                "reserve" => {
                    q.reserve(amt);
                    "ok".to_string()
                }
                "reserve_exact" => {
                    q.reserve_exact(amt);
                    "ok".to_string()
                }
                "try_reserve" => match q.try_reserve(amt) {
                    Ok(()) => "ok".into(),
                    Err(_) => "err".into(),
                },
                "try_reserve_exact" => match q.try_reserve_exact(amt) {
                    Ok(()) => "ok".into(),
                    Err(_) => "err".into(),
                },
                _ => {
                    q.shrink_to_fit();
                    "ok".to_string()
                }
            };
            ev.insert("ret".into(), json!(ret));
            ev.insert("cap_after".into(), json!(q.capacity().min(1 << 30)));
        }
        "ser" => {
            CMPS.with(|c| c.set(0));
            match q.ser_json() {
                Ok(text) => {
                    let v: Value = serde_json::from_str(&text).expect("harness: serializer produced invalid JSON");
                    let mut listing = vec![];
                    for p in v.as_array().expect("harness: serialized form is not a sequence") {
                        listing.push(json!({"k": p[0]["k"], "pay": p[0]["pay"], "r": p[1]["r"], "t": p[1]["t"]}));
                    }
                    ev.insert("ret".into(), json!("ok"));
                    ev.insert("listing".into(), Value::Array(listing));
                    ev.insert("text".into(), json!(text));
                }
                Err(_) => {
                    ev.insert("ret".into(), json!("err"));
                }
            }
        }
        "debug" => {
            CMPS.with(|c| c.set(0));
            let d = q.debug_string();
            ev.insert("nonempty".into(), json!(!d.is_empty()));
            ev.insert("entries".into(), json!(d.matches("Item").count()));
        }
        "iter_calls" => {
            // engine C: a call sequence on a borrowing iterator
            let it = s(op, "it");
            let adaptor = s(op, "adapt");
            let k = n(op, "k") as usize;
            let forget = b(op, "forget");
            let calls = calls_of(op);
            ev.insert("it".into(), json!(it));
            ev.insert("adapt".into(), json!(adaptor));
            ev.insert("k".into(), json!(k));
            ev.insert("forget".into(), json!(forget));
            ev.insert("n0".into(), json!(q.len()));
            ev.insert("ref".into(), json!(unfueled(|| q.ref_order(it))));
            cx.scratch.clear();
            // provided-method calls: the same call sequence on the stepping replica, over a clone taken beforehand
            let mut replica = vec![];
            if calls.iter().any(|c| c.0 == 20) {
                let mut c2 = unfueled(|| q.clone());
                let pa = format!("plain:{}", adaptor);
                c2.with_iter(it, &pa, k, false, &mut |p| proto_calls(p, &calls, &mut replica));
            }
            CMPS.with(|c| c.set(0));
            {
                let scratch = &mut *cx.scratch;
                q.with_iter(it, adaptor, k, forget, &mut |p| proto_calls(p, &calls, scratch));
            }
            merge_wants(&mut cx.scratch, &replica);
            ev.insert("res".into(), Value::Array(cx.scratch.clone()));
        }
        _ => panic!("harness: unknown op {}", name),
    }
}

/// calls of a protocol sequence: a code, or [code, k] for nth / nth_back
pub fn calls_of(op: &Value) -> Vec<(i64, usize)> {
    op.get("calls").and_then(|v| v.as_array()).map(|a| {
        a.iter().map(|x| match x.as_array() {
            Some(p) => (p[0].as_i64().unwrap_or(0), p.get(1).and_then(|v| v.as_u64()).unwrap_or(0) as usize),
            None => (x.as_i64().unwrap_or(0), 0),
        }).collect()
    }).unwrap_or_default()
}

/// call codes: 0 next, 1 next_back, 2 len, 3 size_hint, 4 nth(k), 5 nth_back(k), 6 last (consumes), 7 count (consumes),
/// 8 fold, 9 rfold, 10 for_each (consume; logged element by element), [20, m] provided method q::METHODS[m]
pub fn proto_calls(p: &mut dyn Proto, calls: &[(i64, usize)], out: &mut Vec<Value>) {
    let yv = |y: Option<Y>| match y {
        None => json!([]),
        Some(y) => json!([{"k": y.k, "pay": y.pay, "r": y.r, "t": y.t, "ai": (y.ai as u64 % 1_000_000_007), "ap": (y.ap as u64 % 1_000_000_007)}]),
    };
    for (c, k) in calls {
        // every call is recorded before it runs so that a panic shows where it happened
        out.push(json!({"c": c, "st": "started", "k": k}));
        let rec = match c {
            0 => json!({"c": 0, "st": "done", "k": 0, "y": yv(p.next())}),
            1 => match p.next_back() {
                Some(y) => json!({"c": 1, "st": "done", "k": 0, "y": yv(y)}),
                None => json!({"c": 1, "st": "na", "k": 0}),
            },
            2 => match p.len() {
                Some(l) => json!({"c": 2, "st": "done", "k": 0, "len": l.min(1 << 30)}),
                None => json!({"c": 2, "st": "na", "k": 0}),
            },
            3 => {
                let (lo, hi) = p.size_hint();
                json!({"c": 3, "st": "done", "k": 0, "lo": lo.min(1 << 30), "hi": match hi { Some(h) => json!([h.min(1 << 30)]), None => json!([]) }})
            }
            4 => json!({"c": 4, "st": "done", "k": k, "y": yv(p.nth(*k))}),
            5 => match p.nth_back(*k) {
                Some(y) => json!({"c": 5, "st": "done", "k": k, "y": yv(y)}),
                None => json!({"c": 5, "st": "na", "k": k}),
            },
            6 => json!({"c": 6, "st": "done", "k": 0, "y": yv(p.last())}),
            7 => json!({"c": 7, "st": "done", "k": 0, "len": p.count().min(1 << 30)}),
            // internal iteration: one record per element the closure received, then the end record
            8 | 9 | 10 => {
                let ys = match c {
                    8 => Some(p.fold_all()),
                    9 => p.rfold_all(),
                    _ => Some(p.for_each_all()),
                };
                match ys {
                    Some(ys) => {
                        out.pop();
                        for y in ys {
                            out.push(json!({"c": c, "st": "done", "k": 0, "y": yv(Some(y))}));
                        }
                        json!({"c": c, "st": "done", "k": 0, "y": yv(None)})
                    }
                    None => {
                        out.pop();
                        json!({"c": c, "st": "na", "k": 0})
                    }
                }
            }
            // a provided method (q::METHODS[k]) run on the iterator itself; `want` (what std's default implementation
            // yields on the stepping replica) is filled in by the caller
            20 => {
                let got = p.provided(*k);
                if got == json!("na") { json!({"c": 20, "st": "na", "k": k}) } else { json!({"c": 20, "st": "done", "k": k, "m": crate::q::METHODS.get(*k).copied().unwrap_or("?"), "got": got}) }
            }
            _ => panic!("harness: unknown call code {}", c),
        };
        if matches!(c, 8 | 9 | 10) {
            out.push(rec);
            continue;
        }
        *out.last_mut().unwrap() = rec;
    }
}

/// copy the results of the provided-method calls of the replica run into the records of the real run
pub fn merge_wants(res: &mut [Value], replica: &[Value]) {
    let wants: Vec<&Value> = replica.iter().filter(|r| r.get("c").and_then(|c| c.as_i64()) == Some(20)).collect();
    let mut j = 0;
    for r in res.iter_mut() {
        if r.get("c").and_then(|c| c.as_i64()) == Some(20) {
            if let (Some(w), Some(o)) = (wants.get(j).and_then(|w| w.get("got")), r.as_object_mut()) {
                if o.contains_key("got") {
                    o.insert("want".into(), w.clone());
                }
            }
            j += 1;
        }
    }
}

impl<W: Write> Interp<W> {
    pub fn new(out: W) -> Self {
        Interp { qs: BTreeMap::new(), out, ctr: 0, universe: vec![], hasher: "std".into(), kind: "pq".into(), want_snap: true, nevents: 0, case_id: json!(0), scratch: vec![], live0: (0, 0) }
    }

    fn emit(&mut self, ev: Map<String, Value>) {
        self.nevents += 1;
        serde_json::to_writer(&mut self.out, &Value::Object(ev)).unwrap();
        self.out.write_all(b"\n").unwrap();
    }

    fn base(&self, op: &Value, qid: i64) -> Map<String, Value> {
        let mut ev = Map::new();
        ev.insert("op".into(), json!(s(op, "op")));
        ev.insert("q".into(), json!(qid));
        ev
    }

    fn finish(&mut self, mut ev: Map<String, Value>, qid: i64, panicked: Option<String>) {
        ev.insert("cmps".into(), json!(CMPS.with(|c| c.get())));
        match panicked {
            Some(msg) => {
                ev.insert("panic".into(), json!(1));
                ev.insert("msg".into(), json!(msg));
            }
            None => {
                ev.insert("panic".into(), json!(0));
            }
        }
        match self.qs.get(&qid) {
            Some(q) => {
                ev.insert("kind".into(), json!(q.kind()));
                if self.want_snap {
                    let sn = catch_unwind(AssertUnwindSafe(|| on!(q, x => x.snap())));
                    match sn {
                        Ok(sn) => {
                            ev.insert("hs".into(), json!(1));
                            ev.insert("cap".into(), json!(sn.caps.0.min(1 << 30)));
                            ev.insert("caps".into(), json!([sn.caps.0.min(1 << 30), sn.caps.1.min(1 << 30), sn.caps.2.min(1 << 30)]));
                            ev.insert("snap".into(), snap_json(&sn));
                        }
                        Err(_) => {
                            ev.insert("hs".into(), json!(0));
                        }
                    }
                } else {
                    ev.insert("hs".into(), json!(0));
                    ev.insert("len".into(), json!(on!(q, x => x.len())));
                }
            }
            None => {
                ev.insert("kind".into(), json!("none"));
                ev.insert("hs".into(), json!(0));
            }
        }
        self.emit(ev);
    }

    fn set_fault(&self, op: &Value, ev: &mut Map<String, Value>) {
        clear_fuel();
        INJECTED.with(|c| c.set(0));
        if let Some(f) = op.get("fault").and_then(|v| v.as_object()) {
            for (cls, k) in f {
                let k = k.as_u64().unwrap_or(0);
                match cls.as_str() {
                    "cmp" => FUEL_CMP.with(|c| c.set(Some(k))),
                    "hash" => FUEL_HASH.with(|c| c.set(Some(k))),
                    "eq" => FUEL_EQ.with(|c| c.set(Some(k))),
                    "clone" => FUEL_CLONE.with(|c| c.set(Some(k))),
                    "cb" => FUEL_CB.with(|c| c.set(Some(k))),
                    _ => {}
                }
            }
            ev.insert("fault".into(), Value::Object(f.clone()));
        }
    }

    /// execute one scripted operation, writing its event(s); returns (panicked, injected faults)
    pub fn exec(&mut self, op: &Value) -> (bool, u64) {
        let name = s(op, "op").to_string();
        let qid = n(op, "q");
        let mut ev = self.base(op, qid);
        if !self.want_snap {
            if let Some(q) = self.qs.get(&qid) {
                ev.insert("n0".into(), json!(on!(q, x => x.len())));
            }
        }
        self.set_fault(op, &mut ev);
        CMPS.with(|c| c.set(0));
        let mut panicked = None;
        match name.as_str() {
            "new" => {
                let kind = if s(op, "kind").is_empty() { self.kind.clone() } else { s(op, "kind").to_string() };
                let hasher = if s(op, "hasher").is_empty() { self.hasher.clone() } else { s(op, "hasher").to_string() };
                let how = if s(op, "how").is_empty() { "new" } else { s(op, "how") };
                let cap = n(op, "cap") as usize;
                ev.insert("how".into(), json!(how));
                ev.insert("hasher".into(), json!(hasher));
                // only the constructors that take a capacity promise one
                ev.insert("reqcap".into(), json!(if how.contains("capacity") { cap } else { 0 }));
                match catch_unwind(AssertUnwindSafe(|| Q::make(&kind, &hasher, how, cap))) {
                    Ok(q) => {
                        self.qs.insert(qid, q);
                    }
                    Err(e) => panicked = Some(msg_of(e)),
                }
            }
            "from_vec" | "from_iter" => {
                let kind = if s(op, "kind").is_empty() { self.kind.clone() } else { s(op, "kind").to_string() };
                let hasher = self.hasher.clone();
                let hint = hint_of(op.get("hint"));
                ev.insert("hint".into(), op.get("hint").cloned().unwrap_or(json!([])));
                let mut ctr = self.ctr;
                let mut scratch = vec![];
                let v = {
                    let mut cx = Ctx { ctr: &mut ctr, universe: &[], scratch: &mut scratch };
                    pairs_of(op, &mut cx, &mut ev)
                };
                self.ctr = ctr;
                let r = catch_unwind(AssertUnwindSafe(|| {
                    if name == "from_vec" {
                        Q::from_vec(&kind, &hasher, v)
                    } else {
                        Q::from_iter(&kind, &hasher, Hinted { it: v.into_iter(), hint })
                    }
                }));
                match r {
                    Ok(q) => {
                        self.qs.insert(qid, q);
                    }
                    Err(e) => {
                        self.qs.remove(&qid);
                        panicked = Some(msg_of(e));
                    }
                }
            }
            "de" => {
                let kind = if s(op, "kind").is_empty() { self.kind.clone() } else { s(op, "kind").to_string() };
                let hasher = self.hasher.clone();
                let mut ctr = self.ctr;
                let mut logged = vec![];
                let mut text = String::from("[");
                if let Some(a) = op.get("pairs").and_then(|x| x.as_array()) {
                    for (j, p) in a.iter().enumerate() {
                        let k = p[0].as_str().unwrap_or("");
                        let r = p[1].as_i64().unwrap_or(0);
                        ctr += 2;
                        logged.push(json!({"k": k, "pay": ctr - 1, "r": r, "t": ctr}));
                        if j > 0 {
                            text.push(',');
                        }
                        text.push_str(&format!("[{{\"k\":\"{}\",\"pay\":{}}},{{\"r\":{},\"t\":{}}}]", k, ctr - 1, r, ctr));
                    }
                }
                text.push(']');
                if let Some(t) = op.get("text").and_then(|v| v.as_str()) {
                    text = t.to_string();
                }
                self.ctr = ctr;
                ev.insert("pairs".into(), Value::Array(logged));
                match catch_unwind(AssertUnwindSafe(|| Q::de_json(&kind, &hasher, &text))) {
                    Ok(Ok(q)) => {
                        ev.insert("ret".into(), json!("ok"));
                        self.qs.insert(qid, q);
                    }
                    Ok(Err(_)) => {
                        ev.insert("ret".into(), json!("err"));
                        self.qs.remove(&qid);
                    }
                    Err(e) => {
                        self.qs.remove(&qid);
                        panicked = Some(msg_of(e));
                    }
                }
            }
            "de_tokens" => {
                // serde tokens (serde_test): Seq { len } announces the length (or not), then the pairs
                use serde_test::Token;
                let kind = if s(op, "kind").is_empty() { self.kind.clone() } else { s(op, "kind").to_string() };
                let hasher = self.hasher.clone();
                let mut ctr = self.ctr;
                let mut logged = vec![];
                let mut toks: Vec<Token> = vec![];
                let pairs = op.get("pairs").and_then(|x| x.as_array()).cloned().unwrap_or_default();
                let lenhint = match n(op, "lenhint") {
                    -1 => None,
                    _ => Some(pairs.len()),
                };
                toks.push(Token::Seq { len: lenhint });
                for p in pairs.iter() {
                    let k: &'static str = Box::leak(p[0].as_str().unwrap_or("").to_string().into_boxed_str());
                    let r = p[1].as_i64().unwrap_or(0);
                    ctr += 2;
                    logged.push(json!({"k": k, "pay": ctr - 1, "r": r, "t": ctr}));
                    toks.push(Token::Tuple { len: 2 });
                    toks.push(Token::Struct { name: "RawItem", len: 2 });
                    toks.push(Token::Str("k"));
                    toks.push(Token::Str(k));
                    toks.push(Token::Str("pay"));
                    toks.push(Token::I64(ctr - 1));
                    toks.push(Token::StructEnd);
                    toks.push(Token::Struct { name: "RawPri", len: 2 });
                    toks.push(Token::Str("r"));
                    toks.push(Token::I64(r));
                    toks.push(Token::Str("t"));
                    toks.push(Token::I64(ctr));
                    toks.push(Token::StructEnd);
                    toks.push(Token::TupleEnd);
                }
                toks.push(Token::SeqEnd);
                self.ctr = ctr;
                ev.insert("pairs".into(), Value::Array(logged));
                ev.insert("lenhint".into(), json!(n(op, "lenhint")));
                ev.insert("tokkind".into(), json!(kind));
                let toks: &'static [Token] = Box::leak(toks.into_boxed_slice());
                match catch_unwind(AssertUnwindSafe(|| Q::de_tokens(&kind, &hasher, toks))) {
                    Ok(Ok(sn)) => {
                        ev.insert("ret".into(), json!("ok"));
                        ev.insert("dsnap".into(), snap_json(&sn));
                    }
                    Ok(Err(_)) => {
                        ev.insert("ret".into(), json!("err"));
                    }
                    Err(e) => panicked = Some(msg_of(e)),
                }
            }
            "roundtrip" => {
                // serialize queue `src` (JSON text or serde_json::Value), deserialize as `kind` into queue q
                let src = n(op, "src");
                let kind = if s(op, "kind").is_empty() { self.kind.clone() } else { s(op, "kind").to_string() };
                let hasher = self.hasher.clone();
                ev.insert("src".into(), json!(src));
                let r = catch_unwind(AssertUnwindSafe(|| {
                    let q = self.qs.get(&src).expect("harness: roundtrip of missing queue");
                    on!(q, x => x.ser_json())
                }));
                match r {
                    Ok(Ok(text)) => {
                        let v: Value = serde_json::from_str(&text).expect("harness: serializer produced invalid JSON");
                        let mut listing = vec![];
                        for p in v.as_array().expect("harness: serialized form is not a sequence") {
                            listing.push(json!({"k": p[0]["k"], "pay": p[0]["pay"], "r": p[1]["r"], "t": p[1]["t"]}));
                        }
                        ev.insert("listing".into(), Value::Array(listing));
                        match catch_unwind(AssertUnwindSafe(|| Q::de_json(&kind, &hasher, &text))) {
                            Ok(Ok(q)) => {
                                ev.insert("ret".into(), json!("ok"));
                                self.qs.insert(qid, q);
                            }
                            Ok(Err(_)) => {
                                ev.insert("ret".into(), json!("de_err"));
                                self.qs.remove(&qid);
                            }
                            Err(e) => {
                                self.qs.remove(&qid);
                                panicked = Some(msg_of(e));
                            }
                        }
                    }
                    Ok(Err(_)) => {
                        ev.insert("ret".into(), json!("ser_err"));
                        ev.insert("listing".into(), json!([]));
                    }
                    Err(e) => panicked = Some(msg_of(e)),
                }
            }
            "clone" => {
                let src = n(op, "src");
                ev.insert("src".into(), json!(src));
                let r = catch_unwind(AssertUnwindSafe(|| self.qs.get(&src).expect("harness: clone of missing queue").clone()));
                match r {
                    Ok(q) => {
                        self.qs.insert(qid, q);
                    }
                    Err(e) => panicked = Some(msg_of(e)),
                }
            }
            "clone_into" => {
                // Clone of queue q into queue `to` (fault engine: a panicking Clone of an item / priority)
                let to = n(op, "to");
                ev.insert("to".into(), json!(to));
                let r = catch_unwind(AssertUnwindSafe(|| self.qs.get(&qid).expect("harness: clone of missing queue").clone()));
                match r {
                    Ok(q) => {
                        self.qs.insert(to, q);
                    }
                    Err(e) => panicked = Some(msg_of(e)),
                }
            }
            "clone_from" => {
                // Clone::clone_from: queue q becomes a copy of queue src (reusing q's allocations if it likes)
                let src = n(op, "src");
                ev.insert("src".into(), json!(src));
                let other = self.qs.get(&src).expect("harness: clone_from of missing queue").clone();
                let me = self.qs.get_mut(&qid).expect("harness: clone_from into missing queue");
                let r = catch_unwind(AssertUnwindSafe(|| match (me, &other) {
                    (Q::PqS(x), Q::PqS(y)) => x.clone_from(y),
                    (Q::PqH(x), Q::PqH(y)) => x.clone_from(y),
                    (Q::DqS(x), Q::DqS(y)) => x.clone_from(y),
                    (Q::DqH(x), Q::DqH(y)) => x.clone_from(y),
                    _ => panic!("harness: clone_from across types"),
                }));
                if let Err(e) = r {
                    panicked = Some(msg_of(e));
                }
            }
            "drop" => {
                let q = self.qs.remove(&qid);
                if let Err(e) = catch_unwind(AssertUnwindSafe(|| drop(q))) {
                    panicked = Some(msg_of(e));
                }
            }
            "forget_queue" => {
                if let Some(q) = self.qs.remove(&qid) {
                    std::mem::forget(q);
                }
            }
            "convert" => {
                let q = self.qs.remove(&qid).expect("harness: convert of missing queue");
                match catch_unwind(AssertUnwindSafe(|| q.convert())) {
                    Ok(q) => {
                        self.qs.insert(qid, q);
                    }
                    Err(e) => panicked = Some(msg_of(e)),
                }
            }
            "eq" | "ne" => {
                let o = n(op, "o");
                ev.insert("o".into(), json!(o));
                // twin: the two queues are a source and its clone that went through the same operations
                ev.insert("twin".into(), json!(b(op, "twin")));
                let a = self.qs.get(&qid).expect("harness: eq of missing queue");
                let bq = self.qs.get(&o).expect("harness: eq of missing queue");
                let r = catch_unwind(AssertUnwindSafe(|| match (a, bq) {
                    (Q::PqS(x), Q::PqS(y)) => if name == "eq" { x == y } else { x != y },
                    (Q::PqH(x), Q::PqH(y)) => if name == "eq" { x == y } else { x != y },
                    (Q::DqS(x), Q::DqS(y)) => if name == "eq" { x == y } else { x != y },
                    (Q::DqH(x), Q::DqH(y)) => if name == "eq" { x == y } else { x != y },
                    // different hasher types on the two sides (PartialEq is generic over H1, H2)
                    (Q::PqS(x), Q::PqH(y)) => if name == "eq" { x == y } else { x != y },
                    (Q::PqH(x), Q::PqS(y)) => if name == "eq" { x == y } else { x != y },
                    (Q::DqS(x), Q::DqH(y)) => if name == "eq" { x == y } else { x != y },
                    (Q::DqH(x), Q::DqS(y)) => if name == "eq" { x == y } else { x != y },
                    _ => panic!("harness: eq across kinds"),
                }));
                match r {
                    Ok(v) => {
                        ev.insert("ret".into(), json!(v));
                    }
                    Err(e) => panicked = Some(msg_of(e)),
                }
            }
            "append" => {
                let o = n(op, "o");
                ev.insert("o".into(), json!(o));
                let mut other = self.qs.remove(&o).expect("harness: append of missing queue");
                ev.insert("olen".into(), json!(on!(&other, x => x.len())));
                let me = self.qs.get_mut(&qid).expect("harness: append to missing queue");
                ev.insert("slen".into(), json!(on!(&*me, x => x.len())));
                let r = catch_unwind(AssertUnwindSafe(|| match (me, &mut other) {
                    (Q::PqS(x), Q::PqS(y)) => x.append(y),
                    (Q::PqH(x), Q::PqH(y)) => x.append(y),
                    (Q::DqS(x), Q::DqS(y)) => x.append(y),
                    (Q::DqH(x), Q::DqH(y)) => x.append(y),
                    _ => panic!("harness: append across types"),
                }));
                if let Err(e) = r {
                    panicked = Some(msg_of(e));
                }
                let osn = catch_unwind(AssertUnwindSafe(|| on!(&other, x => x.snap())));
                if let Ok(sn) = osn {
                    ev.insert("osnap".into(), snap_json(&sn));
                }
                self.qs.insert(o, other);
            }
            "into_calls" => {
                // engine C: a call sequence on a consuming iterator of a clone
                let it = s(op, "it").to_string();
                let adaptor = s(op, "adapt").to_string();
                let k = n(op, "k") as usize;
                let calls = calls_of(op);
                ev.insert("it".into(), json!(it));
                ev.insert("adapt".into(), json!(adaptor));
                ev.insert("k".into(), json!(k));
                let q = self.qs.get(&qid).expect("harness: missing queue");
                ev.insert("n0".into(), json!(on!(q, x => x.len())));
                ev.insert("ref".into(), json!(on!(q, x => x.ref_order(&it))));
                let mut scratch = vec![];
                let mut replica = vec![];
                if calls.iter().any(|c| c.0 == 20) {
                    let c2 = q.clone();
                    let pa = format!("plain:{}", adaptor);
                    on!(c2, x => x.with_into_iter(&it, &pa, k, &mut |p| proto_calls(p, &calls, &mut replica)));
                }
                let r = catch_unwind(AssertUnwindSafe(|| {
                    let c = q.clone();
                    on!(c, x => x.with_into_iter(&it, &adaptor, k, &mut |p| proto_calls(p, &calls, &mut scratch)))
                }));
                merge_wants(&mut scratch, &replica);
                ev.insert("res".into(), Value::Array(scratch));
                if let Err(e) = r {
                    panicked = Some(msg_of(e));
                }
            }
            "balance" => {
                // live-object counters (meaningful once every queue has been dropped)
                ev.insert("live_items".into(), json!(LIVE_ITEMS.with(|c| c.get()) - self.live0.0));
                ev.insert("live_pris".into(), json!(LIVE_PRIS.with(|c| c.get()) - self.live0.1));
                ev.insert("queues".into(), json!(self.qs.len()));
            }
            _ => {
                let mut ctr = self.ctr;
                let mut scratch = std::mem::take(&mut self.scratch);
                let universe = self.universe.clone();
                let q = self.qs.get_mut(&qid).unwrap_or_else(|| panic!("harness: op {} on missing queue {}", name, qid));
                let r = {
                    let mut cx = Ctx { ctr: &mut ctr, universe: &universe, scratch: &mut scratch };
                    catch_unwind(AssertUnwindSafe(|| on!(q, x => run(x, op, &mut cx, &mut ev))))
                };
                if let Err(e) = r {
                    let m = msg_of(e);
                    if m.starts_with("harness:") {
                        eprintln!("{}", m);
                        std::process::exit(2);
                    }
                    // partial call lists survive the unwinding
                    match name.as_str() {
                        "retain" | "retain_mut" => {
                            ev.insert("calls".into(), Value::Array(scratch.clone()));
                        }
                        "iter_mut" => {
                            ev.insert("ys".into(), Value::Array(scratch.clone()));
                        }
                        "iter_calls" => {
                            ev.insert("res".into(), Value::Array(scratch.clone()));
                        }
                        "pop_if" | "pop_min_if" | "pop_max_if" => {
                            ev.insert("seen".into(), Value::Array(scratch.clone()));
                        }
                        _ => {}
                    }
                    panicked = Some(m);
                }
                self.ctr = ctr;
                self.scratch = scratch;
            }
        }
        let cm = CMPS.with(|c| c.get());
        let inj = INJECTED.with(|c| c.get());
        ev.insert("injected".into(), json!(inj));
        clear_fuel();
        CMPS.with(|c| c.set(cm));
        let p = panicked.is_some();
        self.finish(ev, qid, panicked);
        (p, inj)
    }

    /// fault sweep (engine D): for every operation and callback class, inject a panic at callback number
    /// k = 0, 1, ... until the operation completes without reaching the crash point; after every caught
    /// panic run each continuation on a clone of the damaged queue, then drop everything.
    fn run_sweep(&mut self, sweep: &Value) {
        let empty = vec![];
        let ops = sweep.get("ops").and_then(|v| v.as_array()).unwrap_or(&empty).clone();
        let classes: Vec<String> = sweep.get("classes").and_then(|v| v.as_array()).map(|a| a.iter().map(|x| x.as_str().unwrap_or("").to_string()).collect()).unwrap_or_default();
        let conts = sweep.get("conts").and_then(|v| v.as_array()).unwrap_or(&empty).clone();
        let maxk = sweep.get("maxk").and_then(|v| v.as_u64()).unwrap_or(40);
        for op in ops.iter() {
            for cls in classes.iter() {
                for k in 0..=maxk {
                    self.exec(&json!({"op": "clone", "q": 1, "src": 0}));
                    if let Some(ob) = op.get("obuild").and_then(|v| v.as_array()) {
                        // a second queue (id 3) for two-queue operations, rebuilt before every attempt
                        if self.qs.contains_key(&3) {
                            self.exec(&json!({"op": "drop", "q": 3}));
                        }
                        self.exec(&json!({"op": "new", "q": 3}));
                        for o in ob {
                            let mut o = o.clone();
                            o["q"] = json!(3);
                            self.exec(&o);
                        }
                    }
                    let mut fop = op.clone();
                    fop["q"] = json!(1);
                    fop["fault"] = json!({ cls.as_str(): k });
                    let (_p, inj) = self.exec(&fop);
                    if inj == 0 {
                        self.exec(&json!({"op": "drop", "q": 1}));
                        break;
                    }
                    if !self.qs.contains_key(&1) {
                        continue; // the operation consumed the queue (convert): nothing left to continue on
                    }
                    for cont in conts.iter() {
                        let (cp, _) = self.exec(&json!({"op": "clone", "q": 2, "src": 1}));
                        if !cp {
                            for c in cont.as_array().unwrap_or(&empty) {
                                if !self.qs.contains_key(&2) {
                                    break; // consumed by a panicking conversion
                                }
                                let mut c = c.clone();
                                c["q"] = json!(2);
                                self.exec(&c);
                            }
                            self.exec(&json!({"op": "drop", "q": 2}));
                        }
                    }
                    self.exec(&json!({"op": "drop", "q": 1}));
                }
            }
        }
    }

    /// every queue the operation uses (other than the one it creates) exists
    fn targets_exist(&self, op: &Value) -> bool {
        let name = s(op, "op");
        let creates = matches!(name, "new" | "from_vec" | "from_iter" | "de" | "de_tokens" | "roundtrip" | "clone" | "balance");
        let q = n(op, "q");
        if !creates && !self.qs.contains_key(&q) {
            return false;
        }
        for f in ["src", "o"] {
            if let Some(x) = op.get(f).and_then(|v| v.as_i64()) {
                if !self.qs.contains_key(&x) {
                    return false;
                }
            }
        }
        true
    }

    fn witness(&mut self, qid: i64, wit: &[String]) {
        let kind = match self.qs.get(&qid) {
            Some(q) => q.kind(),
            None => return,
        };
        for w in wit {
            if w == "contents" {
                self.exec(&json!({"op": "contents", "q": qid}));
            } else if let Some(mode) = w.strip_prefix("sorted:") {
                let pq_mode = matches!(mode, "pop" | "vec");
                let dq_mode = matches!(mode, "pop_min" | "pop_max" | "asc_vec" | "desc_vec" | "alt");
                if kind == "pq" && pq_mode {
                    self.exec(&json!({"op": "sorted", "q": qid, "mode": mode}));
                } else if kind == "dpq" && dq_mode {
                    if mode == "alt" {
                        let len = on!(self.qs.get(&qid).unwrap(), x => x.len());
                        let calls: Vec<i64> = (0..len + 1).map(|i| (i % 2) as i64).collect();
                        self.exec(&json!({"op": "sorted", "q": qid, "mode": "pop_calls", "calls": calls}));
                    } else {
                        self.exec(&json!({"op": "sorted", "q": qid, "mode": mode}));
                    }
                }
            }
        }
    }

    /// run one case: {case, kind, hasher, universe, steps, probes, wit, snap}
    pub fn run_case(&mut self, case: &Value) {
        // everything from the previous case is dropped
        let old = std::mem::take(&mut self.qs);
        drop(old);
        self.live0 = (LIVE_ITEMS.with(|c| c.get()), LIVE_PRIS.with(|c| c.get()));
        self.kind = if s(case, "kind").is_empty() { "pq".into() } else { s(case, "kind").into() };
        self.hasher = if s(case, "hasher").is_empty() { "std".into() } else { s(case, "hasher").into() };
        self.universe = case.get("universe").and_then(|v| v.as_array()).map(|a| a.iter().map(|x| x.as_str().unwrap_or("").to_string()).collect()).unwrap_or_default();
        self.want_snap = case.get("snap").map(|v| v.as_i64().unwrap_or(1) != 0).unwrap_or(true);
        self.case_id = case.get("case").cloned().unwrap_or(json!(0));
        let wit: Vec<String> = case.get("wit").and_then(|v| v.as_array()).map(|a| a.iter().map(|x| x.as_str().unwrap_or("").to_string()).collect()).unwrap_or_default();
        let witsteps = b(case, "witsteps");
        let mut ev = Map::new();
        ev.insert("op".into(), json!("reset"));
        ev.insert("q".into(), json!(0));
        ev.insert("case".into(), self.case_id.clone());
        ev.insert("kind".into(), json!(self.kind));
        ev.insert("hasher".into(), json!(self.hasher));
        ev.insert("panic".into(), json!(0));
        ev.insert("hs".into(), json!(0));
        self.emit(ev);
        let empty = vec![];
        let steps = case.get("steps").and_then(|v| v.as_array()).unwrap_or(&empty);
        let creates = |o: &Value| matches!(s(o, "op"), "new" | "from_vec" | "from_iter" | "de") && n(o, "q") == 0;
        // (a `de` that fails leaves no queue 0: the rest of such a case must not use it)
        if steps.first().map(creates) != Some(true) {
            self.exec(&json!({"op": "new", "q": 0}));
        }
        for op in steps {
            if !self.targets_exist(op) {
                break;
            }
            self.exec(op);
            if witsteps {
                self.witness(n(op, "q"), &wit);
            }
        }
        if !witsteps {
            self.witness(0, &wit);
        }
        if let Some(probes) = case.get("probes").and_then(|v| v.as_array()) {
            for probe in probes {
                self.exec(&json!({"op": "clone", "q": 1, "src": 0}));
                let ops: Vec<Value> = match probe {
                    Value::Array(a) => a.clone(),
                    v => vec![v.clone()],
                };
                for op in ops {
                    let mut op = op.clone();
                    if op.get("q").is_none() {
                        op["q"] = json!(1);
                    }
                    if !self.targets_exist(&op) {
                        break; // a creation failed (error or panic, already recorded): nothing to continue on
                    }
                    self.exec(&op);
                }
                let ids: Vec<i64> = self.qs.keys().cloned().filter(|k| *k != 0).collect();
                for id in &ids {
                    self.witness(*id, &wit);
                }
                for id in ids {
                    self.exec(&json!({"op": "drop", "q": id}));
                }
            }
            // independence of clones: nothing done to the clones may have touched the source
            if !probes.is_empty() {
                self.witness(0, &wit);
            }
        }
        if let Some(sw) = case.get("sweep") {
            self.run_sweep(sw);
            let ids: Vec<i64> = self.qs.keys().cloned().collect();
            for id in ids {
                self.exec(&json!({"op": "drop", "q": id}));
            }
            self.exec(&json!({"op": "balance", "q": 0}));
        }
    }
}

pub fn msg_of(e: Box<dyn std::any::Any + Send>) -> String {
    if let Some(s) = e.downcast_ref::<&str>() {
        s.to_string()
    } else if let Some(s) = e.downcast_ref::<String>() {
        s.clone()
    } else {
        "panic".to_string()
    }
}
