//! A uniform view (`QApi`) of the two queue types for the interpreter, and the `Q` enum over
//! the four concrete instantiations (std RandomState via `new()`, and the switchable `Hs`).
use crate::types::*;
use priority_queue::{DoublePriorityQueue, PriorityQueue};
use std::hash::BuildHasher;

#[derive(Clone, Copy, PartialEq, Eq, Debug)]
pub enum End {
    Min,
    Max,
}

pub struct Snap {
    pub heap: Vec<usize>,
    pub qp: Vec<usize>,
    pub size: usize,
    pub mlen: usize,
    pub keys: Vec<String>,
    pub pay: Vec<i64>,
    pub r: Vec<i64>,
    pub t: Vec<i64>,
    pub caps: (usize, usize, usize),
}

/// element as observed: key, payload, rank (script scale), tag, addresses of item / priority
#[derive(Clone, Debug)]
pub struct Y {
    pub k: String,
    pub pay: i64,
    pub r: i64,
    pub t: i64,
    pub ai: usize,
    pub ap: usize,
}
pub trait IntoY {
    fn y(self) -> Y;
}
impl IntoY for (&Item, &Pri) {
    fn y(self) -> Y {
        Y { k: self.0.key.clone(), pay: self.0.pay, r: self.1.r(), t: self.1.tag, ai: self.0 as *const Item as usize, ap: self.1 as *const Pri as usize }
    }
}
impl IntoY for (&mut Item, &mut Pri) {
    fn y(self) -> Y {
        Y { k: self.0.key.clone(), pay: self.0.pay, r: self.1.r(), t: self.1.tag, ai: self.0 as *const Item as usize, ap: self.1 as *const Pri as usize }
    }
}
impl IntoY for (&mut Item, &Pri) {
    fn y(self) -> Y {
        Y { k: self.0.key.clone(), pay: self.0.pay, r: self.1.r(), t: self.1.tag, ai: self.0 as *const Item as usize, ap: self.1 as *const Pri as usize }
    }
}
impl IntoY for (Item, Pri) {
    fn y(self) -> Y {
        Y { k: self.0.key.clone(), pay: self.0.pay, r: self.1.r(), t: self.1.tag, ai: 0, ap: 0 }
    }
}

/// key and rank of an element through a shared reference (for the closures of the provided methods)
pub trait View {
    fn vkey(&self) -> &str;
    fn vr(&self) -> i64;
}
impl View for (&Item, &Pri) {
    fn vkey(&self) -> &str {
        &self.0.key
    }
    fn vr(&self) -> i64 {
        self.1.r()
    }
}
impl View for (&mut Item, &mut Pri) {
    fn vkey(&self) -> &str {
        &self.0.key
    }
    fn vr(&self) -> i64 {
        self.1.r()
    }
}
impl View for (&mut Item, &Pri) {
    fn vkey(&self) -> &str {
        &self.0.key
    }
    fn vr(&self) -> i64 {
        self.1.r()
    }
}
impl View for (Item, Pri) {
    fn vkey(&self) -> &str {
        &self.0.key
    }
    fn vr(&self) -> i64 {
        self.1.r()
    }
}

/// The stepping replica: forwards ONLY next / next_back / size_hint, so that every provided method of
/// Iterator / DoubleEndedIterator / ExactSizeIterator called on it runs std's default implementation.
pub struct Plain<I>(pub I);
impl<I: Iterator> Iterator for Plain<I> {
    type Item = I::Item;
    fn next(&mut self) -> Option<I::Item> {
        self.0.next()
    }
    fn size_hint(&self) -> (usize, Option<usize>) {
        self.0.size_hint()
    }
}
impl<I: DoubleEndedIterator> DoubleEndedIterator for Plain<I> {
    fn next_back(&mut self) -> Option<I::Item> {
        self.0.next_back()
    }
}
impl<I: ExactSizeIterator> ExactSizeIterator for Plain<I> {}

/// provided (overridable) methods of the iterator traits, by index (call code 20)
pub const METHODS: &[&str] = &["min", "max", "min_by_key", "max_by_key", "min_by", "max_by", "reduce", "position", "find", "any",
    "all", "find_map", "partition", "collect", "rfind", "rposition", "rev_collect"];
fn jel(y: Y) -> serde_json::Value {
    serde_json::json!({"k": y.k, "pay": y.pay, "r": y.r, "t": y.t})
}
fn jopt<T: IntoY>(o: Option<T>) -> serde_json::Value {
    match o {
        None => serde_json::json!([]),
        Some(x) => serde_json::json!([jel(x.y())]),
    }
}
fn jlist<T: IntoY>(v: Vec<T>) -> serde_json::Value {
    serde_json::Value::Array(v.into_iter().map(|x| jel(x.y())).collect())
}
pub fn provided_fwd<I>(slot: &mut Option<I>, m: usize) -> serde_json::Value
where
    I: Iterator,
    I::Item: IntoY + View + Ord,
{
    use serde_json::json;
    if m > 13 {
        return json!("na");
    }
    let mut i = match slot.take() {
        Some(i) => i,
        None => return json!("gone"),
    };
    match m {
        0 => jopt(i.min()),
        1 => jopt(i.max()),
        2 => jopt(i.min_by_key(|x| x.vr())),
        3 => jopt(i.max_by_key(|x| x.vr())),
        4 => jopt(i.min_by(|a, b| b.vkey().cmp(a.vkey()))),
        5 => jopt(i.max_by(|a, b| b.vkey().cmp(a.vkey()))),
        6 => jopt(i.reduce(|a, b| if b.vr() >= a.vr() { b } else { a })),
        7 => json!(i.position(|x| x.vr() >= 1).map(|p| p as i64).unwrap_or(-1)),
        8 => jopt(i.find(|x| x.vr() >= 1)),
        9 => json!(i.any(|x| x.vr() >= 1)),
        10 => json!(i.all(|x| x.vr() >= 1)),
        11 => json!(i.find_map(|x| if x.vr() >= 1 { Some(x.vkey().to_string()) } else { None }).into_iter().collect::<Vec<String>>()),
        12 => {
            let (a, b): (Vec<I::Item>, Vec<I::Item>) = i.partition(|x| x.vr() >= 1);
            json!([jlist(a), jlist(b)])
        }
        13 => jlist(i.collect::<Vec<I::Item>>()),
        _ => json!("na"),
    }
}
pub fn provided_de<I>(slot: &mut Option<I>, m: usize) -> serde_json::Value
where
    I: DoubleEndedIterator,
    I::Item: IntoY + View + Ord,
{
    use serde_json::json;
    if m != 14 && m != 16 {
        return json!("na");
    }
    let mut i = match slot.take() {
        Some(i) => i,
        None => return json!("gone"),
    };
    match m {
        14 => jopt(i.rfind(|x| x.vr() >= 1)),
        16 => jlist(i.rev().collect::<Vec<I::Item>>()),
        _ => json!("na"),
    }
}
pub fn provided_dx<I>(slot: &mut Option<I>, m: usize) -> serde_json::Value
where
    I: DoubleEndedIterator + ExactSizeIterator,
    I::Item: IntoY + View + Ord,
{
    use serde_json::json;
    match m {
        15 => match slot.take() {
            Some(mut i) => json!(i.rposition(|x| x.vr() >= 1).map(|p| p as i64).unwrap_or(-1)),
            None => json!("gone"),
        },
        _ => provided_de(slot, m),
    }
}

/// An iterator as the protocol engine sees it
pub trait Proto {
    fn next(&mut self) -> Option<Y>;
    /// None = next_back not offered
    fn next_back(&mut self) -> Option<Option<Y>>;
    /// None = ExactSizeIterator not declared
    fn len(&self) -> Option<usize>;
    fn size_hint(&self) -> (usize, Option<usize>);
    fn nth(&mut self, k: usize) -> Option<Y>;
    /// None = not offered
    fn nth_back(&mut self, k: usize) -> Option<Option<Y>>;
    /// consuming calls: the iterator is left empty
    fn last(&mut self) -> Option<Y>;
    fn count(&mut self) -> usize;
    /// internal iteration (consuming): everything `fold` / `for_each` passes to its closure, in that order
    fn fold_all(&mut self) -> Vec<Y>;
    fn for_each_all(&mut self) -> Vec<Y>;
    /// None = rfold not offered
    fn rfold_all(&mut self) -> Option<Vec<Y>>;
    /// provided method METHODS[m] (consuming); "na" = not offered by this iterator
    fn provided(&mut self, m: usize) -> serde_json::Value;
}
/// (the iterator sits in an Option so that the consuming methods `last` / `count` can be called on the
/// iterator itself - through `by_ref()` an override of them would never run)
pub struct Fwd<I>(pub Option<I>);
impl<I: Iterator> Proto for Fwd<I>
where
    I::Item: IntoY + View + Ord,
{
    fn next(&mut self) -> Option<Y> {
        self.0.as_mut().and_then(|i| i.next()).map(|x| x.y())
    }
    fn next_back(&mut self) -> Option<Option<Y>> {
        None
    }
    fn nth_back(&mut self, _k: usize) -> Option<Option<Y>> {
        None
    }
    fn len(&self) -> Option<usize> {
        None
    }
    fn size_hint(&self) -> (usize, Option<usize>) {
        self.0.as_ref().map(|i| i.size_hint()).unwrap_or((0, Some(0)))
    }
    fn nth(&mut self, k: usize) -> Option<Y> {
        self.0.as_mut().and_then(|i| i.nth(k)).map(|x| x.y())
    }
    fn last(&mut self) -> Option<Y> {
        self.0.take().and_then(|i| i.last()).map(|x| x.y())
    }
    fn count(&mut self) -> usize {
        self.0.take().map(|i| i.count()).unwrap_or(0)
    }
    fn fold_all(&mut self) -> Vec<Y> {
        self.0.take().map(|i| i.fold(Vec::new(), |mut v, x| { v.push(x.y()); v })).unwrap_or_default()
    }
    fn for_each_all(&mut self) -> Vec<Y> {
        let mut v = Vec::new();
        if let Some(i) = self.0.take() {
            i.for_each(|x| v.push(x.y()));
        }
        v
    }
    fn rfold_all(&mut self) -> Option<Vec<Y>> {
        None
    }
    fn provided(&mut self, m: usize) -> serde_json::Value {
        provided_fwd(&mut self.0, m)
    }
}
/// (the iterator sits in an Option so that the consuming methods `last` / `count` can be called on the
/// iterator itself - through `by_ref()` an override of them would never run)
pub struct Fx<I>(pub Option<I>);
impl<I: Iterator + ExactSizeIterator> Proto for Fx<I>
where
    I::Item: IntoY + View + Ord,
{
    fn next(&mut self) -> Option<Y> {
        self.0.as_mut().and_then(|i| i.next()).map(|x| x.y())
    }
    fn next_back(&mut self) -> Option<Option<Y>> {
        None
    }
    fn nth_back(&mut self, _k: usize) -> Option<Option<Y>> {
        None
    }
    fn len(&self) -> Option<usize> {
        Some(self.0.as_ref().map(|i| i.len()).unwrap_or(0))
    }
    fn size_hint(&self) -> (usize, Option<usize>) {
        self.0.as_ref().map(|i| i.size_hint()).unwrap_or((0, Some(0)))
    }
    fn nth(&mut self, k: usize) -> Option<Y> {
        self.0.as_mut().and_then(|i| i.nth(k)).map(|x| x.y())
    }
    fn last(&mut self) -> Option<Y> {
        self.0.take().and_then(|i| i.last()).map(|x| x.y())
    }
    fn count(&mut self) -> usize {
        self.0.take().map(|i| i.count()).unwrap_or(0)
    }
    fn fold_all(&mut self) -> Vec<Y> {
        self.0.take().map(|i| i.fold(Vec::new(), |mut v, x| { v.push(x.y()); v })).unwrap_or_default()
    }
    fn for_each_all(&mut self) -> Vec<Y> {
        let mut v = Vec::new();
        if let Some(i) = self.0.take() {
            i.for_each(|x| v.push(x.y()));
        }
        v
    }
    fn rfold_all(&mut self) -> Option<Vec<Y>> {
        None
    }
    fn provided(&mut self, m: usize) -> serde_json::Value {
        provided_fwd(&mut self.0, m)
    }
}
/// (the iterator sits in an Option so that the consuming methods `last` / `count` can be called on the
/// iterator itself - through `by_ref()` an override of them would never run)
pub struct Dx<I>(pub Option<I>);
impl<I: DoubleEndedIterator + ExactSizeIterator> Proto for Dx<I>
where
    I::Item: IntoY + View + Ord,
{
    fn next(&mut self) -> Option<Y> {
        self.0.as_mut().and_then(|i| i.next()).map(|x| x.y())
    }
    fn next_back(&mut self) -> Option<Option<Y>> {
        Some(self.0.as_mut().and_then(|i| i.next_back()).map(|x| x.y()))
    }
    fn nth_back(&mut self, k: usize) -> Option<Option<Y>> {
        Some(self.0.as_mut().and_then(|i| i.nth_back(k)).map(|x| x.y()))
    }
    fn len(&self) -> Option<usize> {
        Some(self.0.as_ref().map(|i| i.len()).unwrap_or(0))
    }
    fn size_hint(&self) -> (usize, Option<usize>) {
        self.0.as_ref().map(|i| i.size_hint()).unwrap_or((0, Some(0)))
    }
    fn nth(&mut self, k: usize) -> Option<Y> {
        self.0.as_mut().and_then(|i| i.nth(k)).map(|x| x.y())
    }
    fn last(&mut self) -> Option<Y> {
        self.0.take().and_then(|i| i.last()).map(|x| x.y())
    }
    fn count(&mut self) -> usize {
        self.0.take().map(|i| i.count()).unwrap_or(0)
    }
    fn fold_all(&mut self) -> Vec<Y> {
        self.0.take().map(|i| i.fold(Vec::new(), |mut v, x| { v.push(x.y()); v })).unwrap_or_default()
    }
    fn for_each_all(&mut self) -> Vec<Y> {
        let mut v = Vec::new();
        if let Some(i) = self.0.take() {
            i.for_each(|x| v.push(x.y()));
        }
        v
    }
    fn rfold_all(&mut self) -> Option<Vec<Y>> {
        Some(self.0.take().map(|i| i.rfold(Vec::new(), |mut v, x| { v.push(x.y()); v })).unwrap_or_default())
    }
    fn provided(&mut self, m: usize) -> serde_json::Value {
        if (14..=16).contains(&m) { provided_dx(&mut self.0, m) } else { provided_fwd(&mut self.0, m) }
    }
}
/// (the iterator sits in an Option so that the consuming methods `last` / `count` can be called on the
/// iterator itself - through `by_ref()` an override of them would never run)
pub struct Dd<I>(pub Option<I>);
impl<I: DoubleEndedIterator> Proto for Dd<I>
where
    I::Item: IntoY + View + Ord,
{
    fn next(&mut self) -> Option<Y> {
        self.0.as_mut().and_then(|i| i.next()).map(|x| x.y())
    }
    fn next_back(&mut self) -> Option<Option<Y>> {
        Some(self.0.as_mut().and_then(|i| i.next_back()).map(|x| x.y()))
    }
    fn nth_back(&mut self, k: usize) -> Option<Option<Y>> {
        Some(self.0.as_mut().and_then(|i| i.nth_back(k)).map(|x| x.y()))
    }
    fn len(&self) -> Option<usize> {
        None
    }
    fn size_hint(&self) -> (usize, Option<usize>) {
        self.0.as_ref().map(|i| i.size_hint()).unwrap_or((0, Some(0)))
    }
    fn nth(&mut self, k: usize) -> Option<Y> {
        self.0.as_mut().and_then(|i| i.nth(k)).map(|x| x.y())
    }
    fn last(&mut self) -> Option<Y> {
        self.0.take().and_then(|i| i.last()).map(|x| x.y())
    }
    fn count(&mut self) -> usize {
        self.0.take().map(|i| i.count()).unwrap_or(0)
    }
    fn fold_all(&mut self) -> Vec<Y> {
        self.0.take().map(|i| i.fold(Vec::new(), |mut v, x| { v.push(x.y()); v })).unwrap_or_default()
    }
    fn for_each_all(&mut self) -> Vec<Y> {
        let mut v = Vec::new();
        if let Some(i) = self.0.take() {
            i.for_each(|x| v.push(x.y()));
        }
        v
    }
    fn rfold_all(&mut self) -> Option<Vec<Y>> {
        Some(self.0.take().map(|i| i.rfold(Vec::new(), |mut v, x| { v.push(x.y()); v })).unwrap_or_default())
    }
    fn provided(&mut self, m: usize) -> serde_json::Value {
        if (14..=16).contains(&m) { provided_de(&mut self.0, m) } else { provided_fwd(&mut self.0, m) }
    }
}

/// std adaptors over a double-ended exact-size iterator (where std requires those traits)
pub fn adapt_dx<'a, I>(it: I, adaptor: &str, k: usize) -> Box<dyn Proto + 'a>
where
    I: DoubleEndedIterator + ExactSizeIterator + 'a,
    I::Item: IntoY + View + Ord + 'a,
{
    match adaptor {
        "" | "none" => Box::new(Dx(Some(it))),
        "rev" => Box::new(Dx(Some(it.rev()))),
        "take" => Box::new(Dx(Some(it.take(k)))),
        "skip" => Box::new(Dx(Some(it.skip(k)))),
        "enumerate" => Box::new(Dx(Some(it.enumerate().map(|(_, x)| x)))),
        "zip" => Box::new(Dx(Some(it.zip(0..1_000_000usize).map(|(x, _)| x)))),
        "peekable" => Box::new(Dx(Some(it.peekable()))),
        "fuse" => Box::new(Dx(Some(it.fuse()))),
        "step_by" => Box::new(Dx(Some(it.step_by(k.max(1))))),
        "chain" => Box::new(Dd(Some(it.chain(std::iter::empty())))),
        "rev_take" => Box::new(Dx(Some(it.rev().take(k)))),
        "take_rev" => Box::new(Dx(Some(it.take(k).rev()))),
        "skip_rev" => Box::new(Dx(Some(it.skip(k).rev()))),
        _ => panic!("harness: unknown adaptor {}", adaptor),
    }
}
/// std adaptors over a forward-only iterator
pub fn adapt_fwd<'a, I>(it: I, adaptor: &str, k: usize) -> Box<dyn Proto + 'a>
where
    I: Iterator + 'a,
    I::Item: IntoY + View + Ord + 'a,
{
    match adaptor {
        "" | "none" => Box::new(Fwd(Some(it))),
        "take" => Box::new(Fwd(Some(it.take(k)))),
        "skip" => Box::new(Fwd(Some(it.skip(k)))),
        "enumerate" => Box::new(Fwd(Some(it.enumerate().map(|(_, x)| x)))),
        "zip" => Box::new(Fwd(Some(it.zip(0..1_000_000usize).map(|(x, _)| x)))),
        "peekable" => Box::new(Fwd(Some(it.peekable()))),
        "fuse" => Box::new(Fwd(Some(it.fuse()))),
        "step_by" => Box::new(Fwd(Some(it.step_by(k.max(1))))),
        "chain" => Box::new(Fwd(Some(it.chain(std::iter::empty())))),
        _ => panic!("harness: unknown adaptor {}", adaptor),
    }
}

/// iterator wrapper that reports an arbitrary (legal) size hint and counts as a user callback
pub struct Hinted<I> {
    pub it: I,
    pub hint: Option<(usize, Option<usize>)>,
}
impl<I: Iterator> Iterator for Hinted<I> {
    type Item = I::Item;
    fn next(&mut self) -> Option<I::Item> {
        tick(&FUEL_CB, "iterator next");
        self.it.next()
    }
    fn size_hint(&self) -> (usize, Option<usize>) {
        match self.hint {
            Some(h) => h,
            None => self.it.size_hint(),
        }
    }
}
pub type PairIter = Hinted<std::vec::IntoIter<(Item, Pri)>>;

thread_local! {
    pub static PROBE_SNAP: std::cell::RefCell<Option<Snap>> = const { std::cell::RefCell::new(None) };
}
/// wrapper that lets serde_test::assert_de_tokens hand us the deserialized value: its PartialEq
/// records a snapshot of the value it is called on and always agrees
pub struct Probe<T>(pub T);
impl<'de, T: serde::Deserialize<'de>> serde::Deserialize<'de> for Probe<T> {
    fn deserialize<D: serde::Deserializer<'de>>(d: D) -> Result<Self, D::Error> {
        T::deserialize(d).map(Probe)
    }
}
impl<T: QApi> PartialEq for Probe<T> {
    fn eq(&self, _o: &Self) -> bool {
        PROBE_SNAP.with(|c| {
            if c.borrow().is_none() {
                *c.borrow_mut() = Some(self.0.snap());
            }
        });
        true
    }
}
impl<T> std::fmt::Debug for Probe<T> {
    fn fmt(&self, f: &mut std::fmt::Formatter) -> std::fmt::Result {
        write!(f, "Probe")
    }
}

pub trait QApi: Sized + Clone + for<'de> serde::Deserialize<'de> {
    const KIND: &'static str;
    fn push(&mut self, i: Item, p: Pri) -> Option<Pri>;
    fn push_increase(&mut self, i: Item, p: Pri) -> Option<Pri>;
    fn push_decrease(&mut self, i: Item, p: Pri) -> Option<Pri>;
    fn change_priority(&mut self, k: &Item, p: Pri) -> Option<Pri>;
    fn change_priority_b(&mut self, k: &str, p: Pri) -> Option<Pri>;
    fn change_priority_by(&mut self, k: &Item, f: &mut dyn FnMut(&mut Pri)) -> bool;
    fn change_priority_by_b(&mut self, k: &str, f: &mut dyn FnMut(&mut Pri)) -> bool;
    fn remove(&mut self, k: &Item) -> Option<(Item, Pri)>;
    fn remove_b(&mut self, k: &str) -> Option<(Item, Pri)>;
    fn get(&self, k: &Item) -> Option<(&Item, &Pri)>;
    fn get_b(&self, k: &str) -> Option<(&Item, &Pri)>;
    fn get_priority(&self, k: &Item) -> Option<&Pri>;
    fn get_priority_b(&self, k: &str) -> Option<&Pri>;
    fn get_mut(&mut self, k: &Item) -> Option<(&mut Item, &Pri)>;
    fn get_mut_b(&mut self, k: &str) -> Option<(&mut Item, &Pri)>;
    fn len(&self) -> usize;
    fn is_empty(&self) -> bool;
    fn capacity(&self) -> usize;
    fn peek(&self, end: End) -> Option<(&Item, &Pri)>;
    fn peek_mut(&mut self, end: End) -> Option<(&mut Item, &Pri)>;
    fn pop(&mut self, end: End) -> Option<(Item, Pri)>;
    fn pop_if(&mut self, end: End, f: &mut dyn FnMut(&mut Item, &mut Pri) -> bool) -> Option<(Item, Pri)>;
    fn retain(&mut self, f: &mut dyn FnMut(&Item, &Pri) -> bool);
    fn retain_mut(&mut self, f: &mut dyn FnMut(&mut Item, &mut Pri) -> bool);
    fn iter_vec(&self) -> Vec<Y>;
    fn iter_ref_vec(&self) -> Vec<Y>; // through `&queue`
    fn into_vec(self) -> Vec<Item>;
    fn into_iter_vec(self) -> Vec<(Item, Pri)>;
    /// consume `n` elements from the front of iter_mut (or `&mut queue`), applying f, then drop / forget
    /// `nb` further elements are taken from the back where the iterator offers next_back
    fn iter_mut_front(&mut self, n: usize, nb: usize, back_first: bool, via_ref: bool, forget: bool, f: &mut dyn FnMut(&mut Item, &mut Pri));
    fn append(&mut self, o: &mut Self);
    fn extend_it(&mut self, it: PairIter);
    fn clear(&mut self);
    fn reserve(&mut self, n: usize);
    fn reserve_exact(&mut self, n: usize);
    fn try_reserve(&mut self, n: usize) -> Result<(), String>;
    fn try_reserve_exact(&mut self, n: usize) -> Result<(), String>;
    fn shrink_to_fit(&mut self);
    /// sorted consumption; `calls`: 0 = next, 1 = next_back (iterator modes)
    fn sorted(self, mode: &str, calls: &[u8]) -> Result<Vec<(Option<Y>, i64)>, String>;
    fn snap(&self) -> Snap;
    fn from_vec(v: Vec<(Item, Pri)>) -> Self;
    fn from_iter_it(it: PairIter) -> Self;
    fn ser_json(&self) -> Result<String, String>;
    fn de_json(s: &str) -> Result<Self, String>;
    fn debug_string(&self) -> String;
    /// deserialize from serde tokens (serde_test); the result is observed through a snapshot
    fn de_tokens_snap(tokens: &'static [serde_test::Token]) -> Result<Snap, String>;
    /// run f on a protocol view of the named iterator
    fn with_iter(&mut self, it: &str, adaptor: &str, k: usize, forget: bool, f: &mut dyn FnMut(&mut dyn Proto));
    fn with_into_iter(self, it: &str, adaptor: &str, k: usize, f: &mut dyn FnMut(&mut dyn Proto));
    /// the order in which a plain forward traversal of the named iterator yields the keys: taken from the
    /// same queue for the borrowing iterators and from a clone for the consuming ones
    fn ref_order(&self, it: &str) -> Vec<String>;
}

fn snap_of<I, P>(s: priority_queue::VerifSnapshot<'_, I, P>, f: impl Fn(&I, &P) -> (String, i64, i64, i64)) -> Snap {
    let mut keys = vec![];
    let mut pay = vec![];
    let mut r = vec![];
    let mut t = vec![];
    for (i, p) in s.entries.iter() {
        let (k, py, rr, tt) = f(i, p);
        keys.push(k);
        pay.push(py);
        r.push(rr);
        t.push(tt);
    }
    Snap { heap: s.heap, qp: s.qp, size: s.size, mlen: s.map_len, keys, pay, r, t, caps: s.caps }
}

macro_rules! common_impl {
    () => {
        fn push(&mut self, i: Item, p: Pri) -> Option<Pri> {
            Self::push(self, i, p)
        }
        fn push_increase(&mut self, i: Item, p: Pri) -> Option<Pri> {
            Self::push_increase(self, i, p)
        }
        fn push_decrease(&mut self, i: Item, p: Pri) -> Option<Pri> {
            Self::push_decrease(self, i, p)
        }
        fn change_priority(&mut self, k: &Item, p: Pri) -> Option<Pri> {
            Self::change_priority(self, k, p)
        }
        fn change_priority_b(&mut self, k: &str, p: Pri) -> Option<Pri> {
            Self::change_priority(self, k, p)
        }
        fn change_priority_by(&mut self, k: &Item, f: &mut dyn FnMut(&mut Pri)) -> bool {
            Self::change_priority_by(self, k, |p| f(p))
        }
        fn change_priority_by_b(&mut self, k: &str, f: &mut dyn FnMut(&mut Pri)) -> bool {
            Self::change_priority_by(self, k, |p| f(p))
        }
        fn remove(&mut self, k: &Item) -> Option<(Item, Pri)> {
            Self::remove(self, k)
        }
        fn remove_b(&mut self, k: &str) -> Option<(Item, Pri)> {
            Self::remove(self, k)
        }
        fn get(&self, k: &Item) -> Option<(&Item, &Pri)> {
            Self::get(self, k)
        }
        fn get_b(&self, k: &str) -> Option<(&Item, &Pri)> {
            Self::get(self, k)
        }
        fn get_priority(&self, k: &Item) -> Option<&Pri> {
            Self::get_priority(self, k)
        }
        fn get_priority_b(&self, k: &str) -> Option<&Pri> {
            Self::get_priority(self, k)
        }
        fn get_mut(&mut self, k: &Item) -> Option<(&mut Item, &Pri)> {
            Self::get_mut(self, k)
        }
        fn get_mut_b(&mut self, k: &str) -> Option<(&mut Item, &Pri)> {
            Self::get_mut(self, k)
        }
        fn len(&self) -> usize {
            Self::len(self)
        }
        fn is_empty(&self) -> bool {
            Self::is_empty(self)
        }
        fn capacity(&self) -> usize {
            Self::capacity(self)
        }
        fn retain(&mut self, f: &mut dyn FnMut(&Item, &Pri) -> bool) {
            Self::retain(self, |i, p| f(i, p))
        }
        fn retain_mut(&mut self, f: &mut dyn FnMut(&mut Item, &mut Pri) -> bool) {
            Self::retain_mut(self, |i, p| f(i, p))
        }
        fn iter_vec(&self) -> Vec<Y> {
            self.iter().map(|x| x.y()).collect()
        }
        fn iter_ref_vec(&self) -> Vec<Y> {
            let mut v = vec![];
            for x in self {
                v.push(x.y());
            }
            v
        }
        fn into_vec(self) -> Vec<Item> {
            Self::into_vec(self)
        }
        fn into_iter_vec(self) -> Vec<(Item, Pri)> {
            self.into_iter().collect()
        }
        fn append(&mut self, o: &mut Self) {
            Self::append(self, o)
        }
        fn extend_it(&mut self, it: PairIter) {
            self.extend(it)
        }
        fn clear(&mut self) {
            Self::clear(self)
        }
        fn reserve(&mut self, n: usize) {
            Self::reserve(self, n)
        }
        fn reserve_exact(&mut self, n: usize) {
            Self::reserve_exact(self, n)
        }
        fn try_reserve(&mut self, n: usize) -> Result<(), String> {
            Self::try_reserve(self, n).map_err(|e| format!("{}", e))
        }
        fn try_reserve_exact(&mut self, n: usize) -> Result<(), String> {
            Self::try_reserve_exact(self, n).map_err(|e| format!("{}", e))
        }
        fn shrink_to_fit(&mut self) {
            Self::shrink_to_fit(self)
        }
        fn snap(&self) -> Snap {
            snap_of(self.verif_snapshot(), |i, p| (i.key.clone(), i.pay, p.r(), p.tag))
        }
        fn from_vec(v: Vec<(Item, Pri)>) -> Self {
            Self::from(v)
        }
        fn from_iter_it(it: PairIter) -> Self {
            it.collect()
        }
        fn ser_json(&self) -> Result<String, String> {
            serde_json::to_string(self).map_err(|e| format!("{}", e))
        }
        fn de_json(s: &str) -> Result<Self, String> {
            serde_json::from_str(s).map_err(|e| format!("{}", e))
        }
        fn de_tokens_snap(tokens: &'static [serde_test::Token]) -> Result<Snap, String> {
            PROBE_SNAP.with(|c| *c.borrow_mut() = None);
            let expected: Probe<Self> = Probe(Self::from_vec(vec![]));
            serde_test::assert_de_tokens(&expected, tokens);
            PROBE_SNAP.with(|c| c.borrow_mut().take()).ok_or_else(|| "no value".to_string())
        }
    };
}

impl<H: BuildHasher + Default + Clone + std::fmt::Debug> QApi for PriorityQueue<Item, Pri, H> {
    const KIND: &'static str = "pq";
    common_impl!();
    fn ref_order(&self, it: &str) -> Vec<String> {
        match it {
            "iter" | "iter_ref" | "iter_mut" | "iter_mut_ref" => self.iter().map(|(i, _)| i.key.clone()).collect(),
            "drain" => {
                let mut c = self.clone();
                let v: Vec<String> = c.drain().map(|(i, _)| i.key.clone()).collect();
                v
            }
            "into_iter" => self.clone().into_iter().map(|(i, _)| i.key.clone()).collect(),
            _ => vec![],
        }
    }

    fn iter_mut_front(&mut self, n: usize, _nb: usize, _back_first: bool, via_ref: bool, forget: bool, f: &mut dyn FnMut(&mut Item, &mut Pri)) {
        let mut it = if via_ref { (&mut *self).into_iter() } else { self.iter_mut() };
        for _ in 0..n {
            match it.next() {
                Some((i, p)) => f(i, p),
                None => break,
            }
        }
        if forget {
            std::mem::forget(it);
        }
    }

    fn peek(&self, _end: End) -> Option<(&Item, &Pri)> {
        Self::peek(self)
    }
    fn peek_mut(&mut self, _end: End) -> Option<(&mut Item, &Pri)> {
        Self::peek_mut(self)
    }
    fn pop(&mut self, _end: End) -> Option<(Item, Pri)> {
        Self::pop(self)
    }
    fn pop_if(&mut self, _end: End, f: &mut dyn FnMut(&mut Item, &mut Pri) -> bool) -> Option<(Item, Pri)> {
        Self::pop_if(self, |i, p| f(i, p))
    }
    fn debug_string(&self) -> String {
        format!("{:?}", self)
    }
    fn sorted(mut self, mode: &str, calls: &[u8]) -> Result<Vec<(Option<Y>, i64)>, String> {
        let mut out = vec![];
        match mode {
            "pop" => {
                while let Some(x) = Self::pop(&mut self) {
                    out.push((Some(x.y()), -1));
                }
            }
            "vec" => {
                for i in self.into_sorted_vec() {
                    out.push((Some(Y { k: i.key.clone(), pay: i.pay, r: 0, t: -1, ai: 0, ap: 0 }), -1));
                }
            }
            "iter" => {
                let mut it = self.into_sorted_iter();
                for c in calls {
                    if *c != 0 {
                        return Err("next_back not offered".into());
                    }
                    out.push((it.next().map(|x| x.y()), -1));
                }
            }
            _ => return Err(format!("sorted mode {} unsupported for pq", mode)),
        }
        Ok(out)
    }
    fn with_iter(&mut self, it: &str, adaptor: &str, k: usize, forget: bool, f: &mut dyn FnMut(&mut dyn Proto)) {
        // "plain:<adaptor>": the stepping replica of the same iterator (see Plain)
        let (plain, adaptor) = match adaptor.strip_prefix("plain:") {
            Some(a) => (true, a),
            None => (false, adaptor),
        };
        let mut b: Box<dyn Proto + '_> = match (it, plain) {
            ("iter", false) => adapt_dx(self.iter(), adaptor, k),
            ("iter", true) => adapt_dx(Plain(self.iter()), adaptor, k),
            ("iter_ref", false) => adapt_dx((&*self).into_iter(), adaptor, k),
            ("iter_ref", true) => adapt_dx(Plain((&*self).into_iter()), adaptor, k),
            ("drain", false) => adapt_dx(self.drain(), adaptor, k),
            ("drain", true) => adapt_dx(Plain(self.drain()), adaptor, k),
            ("iter_mut", false) => adapt_fwd(self.iter_mut(), adaptor, k),
            ("iter_mut", true) => adapt_fwd(Plain(self.iter_mut()), adaptor, k),
            ("iter_mut_ref", false) => adapt_fwd((&mut *self).into_iter(), adaptor, k),
            ("iter_mut_ref", true) => adapt_fwd(Plain((&mut *self).into_iter()), adaptor, k),
            _ => panic!("harness: unknown iterator {}", it),
        };
        f(&mut *b);
        if forget {
            std::mem::forget(b);
        }
    }
    fn with_into_iter(self, it: &str, adaptor: &str, k: usize, f: &mut dyn FnMut(&mut dyn Proto)) {
        let (plain, adaptor) = match adaptor.strip_prefix("plain:") {
            Some(a) => (true, a),
            None => (false, adaptor),
        };
        match (it, plain) {
            ("into_iter", false) => f(&mut *adapt_dx(self.into_iter(), adaptor, k)),
            ("into_iter", true) => f(&mut *adapt_dx(Plain(self.into_iter()), adaptor, k)),
            ("sorted", false) => f(&mut *adapt_fwd(self.into_sorted_iter(), adaptor, k)),
            ("sorted", true) => f(&mut *adapt_fwd(Plain(self.into_sorted_iter()), adaptor, k)),
            _ => panic!("harness: unknown iterator {}", it),
        }
    }
}

impl<H: BuildHasher + Default + Clone> QApi for DoublePriorityQueue<Item, Pri, H> {
    const KIND: &'static str = "dpq";
    common_impl!();
    fn ref_order(&self, it: &str) -> Vec<String> {
        match it {
            "iter" | "iter_ref" | "iter_mut" | "iter_mut_ref" => self.iter().map(|(i, _)| i.key.clone()).collect(),
            "drain" => {
                let mut c = self.clone();
                let v: Vec<String> = c.drain().map(|(i, _)| i.key.clone()).collect();
                v
            }
            "into_iter" => self.clone().into_iter().map(|(i, _)| i.key.clone()).collect(),
            _ => vec![],
        }
    }

    fn iter_mut_front(&mut self, n: usize, nb: usize, back_first: bool, via_ref: bool, forget: bool, f: &mut dyn FnMut(&mut Item, &mut Pri)) {
        let mut it = if via_ref { (&mut *self).into_iter() } else { self.iter_mut() };
        if back_first {
            for _ in 0..nb {
                match it.next_back() {
                    Some((i, p)) => f(i, p),
                    None => break,
                }
            }
        }
        for _ in 0..n {
            match it.next() {
                Some((i, p)) => f(i, p),
                None => break,
            }
        }
        if !back_first {
            for _ in 0..nb {
                match it.next_back() {
                    Some((i, p)) => f(i, p),
                    None => break,
                }
            }
        }
        if forget {
            std::mem::forget(it);
        }
    }

    fn peek(&self, end: End) -> Option<(&Item, &Pri)> {
        match end {
            End::Min => Self::peek_min(self),
            End::Max => Self::peek_max(self),
        }
    }
    fn peek_mut(&mut self, end: End) -> Option<(&mut Item, &Pri)> {
        match end {
            End::Min => Self::peek_min_mut(self),
            End::Max => Self::peek_max_mut(self),
        }
    }
    fn pop(&mut self, end: End) -> Option<(Item, Pri)> {
        match end {
            End::Min => Self::pop_min(self),
            End::Max => Self::pop_max(self),
        }
    }
    fn pop_if(&mut self, end: End, f: &mut dyn FnMut(&mut Item, &mut Pri) -> bool) -> Option<(Item, Pri)> {
        match end {
            End::Min => Self::pop_min_if(self, |i, p| f(i, p)),
            End::Max => Self::pop_max_if(self, |i, p| f(i, p)),
        }
    }
    fn debug_string(&self) -> String {
        format!("{:?}", self)
    }
    fn sorted(mut self, mode: &str, calls: &[u8]) -> Result<Vec<(Option<Y>, i64)>, String> {
        let mut out = vec![];
        let only = |i: Item| Y { k: i.key.clone(), pay: i.pay, r: 0, t: -1, ai: 0, ap: 0 };
        match mode {
            "pop_min" => {
                while let Some(x) = Self::pop_min(&mut self) {
                    out.push((Some(x.y()), -1));
                }
            }
            "pop_max" => {
                while let Some(x) = Self::pop_max(&mut self) {
                    out.push((Some(x.y()), -1));
                }
            }
            "pop_calls" => {
                for c in calls {
                    let x = if *c == 0 { Self::pop_min(&mut self) } else { Self::pop_max(&mut self) };
                    out.push((x.map(|x| x.y()), -1));
                }
            }
            "asc_vec" => {
                for i in self.into_ascending_sorted_vec() {
                    out.push((Some(only(i)), -1));
                }
            }
            "desc_vec" => {
                for i in self.into_descending_sorted_vec() {
                    out.push((Some(only(i)), -1));
                }
            }
            "iter" => {
                let mut it = self.into_sorted_iter();
                for c in calls {
                    let l = it.len() as i64;
                    let x = if *c == 0 { it.next() } else { it.next_back() };
                    out.push((x.map(|x| x.y()), l));
                }
            }
            _ => return Err(format!("sorted mode {} unsupported for dpq", mode)),
        }
        Ok(out)
    }
    fn with_iter(&mut self, it: &str, adaptor: &str, k: usize, forget: bool, f: &mut dyn FnMut(&mut dyn Proto)) {
        // "plain:<adaptor>": the stepping replica of the same iterator (see Plain)
        let (plain, adaptor) = match adaptor.strip_prefix("plain:") {
            Some(a) => (true, a),
            None => (false, adaptor),
        };
        let mut b: Box<dyn Proto + '_> = match (it, plain) {
            ("iter", false) => adapt_dx(self.iter(), adaptor, k),
            ("iter", true) => adapt_dx(Plain(self.iter()), adaptor, k),
            ("iter_ref", false) => adapt_dx((&*self).into_iter(), adaptor, k),
            ("iter_ref", true) => adapt_dx(Plain((&*self).into_iter()), adaptor, k),
            ("drain", false) => adapt_dx(self.drain(), adaptor, k),
            ("drain", true) => adapt_dx(Plain(self.drain()), adaptor, k),
            ("iter_mut", false) => adapt_dx(self.iter_mut(), adaptor, k),
            ("iter_mut", true) => adapt_dx(Plain(self.iter_mut()), adaptor, k),
            ("iter_mut_ref", false) => adapt_dx((&mut *self).into_iter(), adaptor, k),
            ("iter_mut_ref", true) => adapt_dx(Plain((&mut *self).into_iter()), adaptor, k),
            _ => panic!("harness: unknown iterator {}", it),
        };
        f(&mut *b);
        if forget {
            std::mem::forget(b);
        }
    }
    fn with_into_iter(self, it: &str, adaptor: &str, k: usize, f: &mut dyn FnMut(&mut dyn Proto)) {
        let (plain, adaptor) = match adaptor.strip_prefix("plain:") {
            Some(a) => (true, a),
            None => (false, adaptor),
        };
        match (it, plain) {
            ("into_iter", false) => f(&mut *adapt_dx(self.into_iter(), adaptor, k)),
            ("into_iter", true) => f(&mut *adapt_dx(Plain(self.into_iter()), adaptor, k)),
            ("sorted", false) => f(&mut *adapt_dx(self.into_sorted_iter(), adaptor, k)),
            ("sorted", true) => f(&mut *adapt_dx(Plain(self.into_sorted_iter()), adaptor, k)),
            _ => panic!("harness: unknown iterator {}", it),
        }
    }
}

pub type PqS = PriorityQueue<Item, Pri>;
pub type PqH = PriorityQueue<Item, Pri, Hs>;
pub type DqS = DoublePriorityQueue<Item, Pri>;
pub type DqH = DoublePriorityQueue<Item, Pri, Hs>;

#[derive(Clone)]
pub enum Q {
    PqS(PqS),
    PqH(PqH),
    DqS(DqS),
    DqH(DqH),
}

#[macro_export]
macro_rules! on {
    ($q:expr, $x:ident => $e:expr) => {
        match $q {
            Q::PqS($x) => $e,
            Q::PqH($x) => $e,
            Q::DqS($x) => $e,
            Q::DqH($x) => $e,
        }
    };
}

impl Q {
    pub fn kind(&self) -> &'static str {
        match self {
            Q::PqS(_) | Q::PqH(_) => "pq",
            _ => "dpq",
        }
    }
    pub fn is_std(&self) -> bool {
        matches!(self, Q::PqS(_) | Q::DqS(_))
    }
    /// how: "new" | "with_capacity" | "default" | "with_default_hasher" | "with_hasher" |
    ///      "with_capacity_and_hasher" | "with_capacity_and_default_hasher"
    pub fn make(kind: &str, hasher: &str, how: &str, cap: usize) -> Q {
        if hasher == "std" {
            match (kind, how) {
                ("pq", "new") => Q::PqS(PqS::new()),
                ("pq", "with_capacity") => Q::PqS(PqS::with_capacity(cap)),
                ("pq", "default") => Q::PqS(PqS::default()),
                ("pq", "with_default_hasher") => Q::PqS(PqS::with_default_hasher()),
                ("pq", "with_capacity_and_default_hasher") => Q::PqS(PqS::with_capacity_and_default_hasher(cap)),
                ("pq", _) => Q::PqS(PqS::new()),
                (_, "new") => Q::DqS(DqS::new()),
                (_, "with_capacity") => Q::DqS(DqS::with_capacity(cap)),
                (_, "default") => Q::DqS(DqS::default()),
                (_, "with_default_hasher") => Q::DqS(DqS::with_default_hasher()),
                (_, "with_capacity_and_default_hasher") => Q::DqS(DqS::with_capacity_and_default_hasher(cap)),
                (_, _) => Q::DqS(DqS::new()),
            }
        } else {
            let code = hasher_code(hasher);
            HASHER_KIND.with(|c| c.set(code));
            match (kind, how) {
                ("pq", "with_hasher") => Q::PqH(PqH::with_hasher(Hs::of(code))),
                ("pq", "with_capacity_and_hasher") | ("pq", "with_capacity") => Q::PqH(PqH::with_capacity_and_hasher(cap, Hs::of(code))),
                ("pq", "default") => Q::PqH(PqH::default()),
                ("pq", "with_capacity_and_default_hasher") => Q::PqH(PqH::with_capacity_and_default_hasher(cap)),
                ("pq", _) => Q::PqH(PqH::with_default_hasher()),
                (_, "with_hasher") => Q::DqH(DqH::with_hasher(Hs::of(code))),
                (_, "with_capacity_and_hasher") | (_, "with_capacity") => Q::DqH(DqH::with_capacity_and_hasher(cap, Hs::of(code))),
                (_, "default") => Q::DqH(DqH::default()),
                (_, "with_capacity_and_default_hasher") => Q::DqH(DqH::with_capacity_and_default_hasher(cap)),
                (_, _) => Q::DqH(DqH::with_default_hasher()),
            }
        }
    }
    pub fn from_vec(kind: &str, hasher: &str, v: Vec<(Item, Pri)>) -> Q {
        HASHER_KIND.with(|c| c.set(hasher_code(hasher)));
        match (kind, hasher == "std") {
            ("pq", true) => Q::PqS(QApi::from_vec(v)),
            ("pq", false) => Q::PqH(QApi::from_vec(v)),
            (_, true) => Q::DqS(QApi::from_vec(v)),
            (_, false) => Q::DqH(QApi::from_vec(v)),
        }
    }
    pub fn from_iter(kind: &str, hasher: &str, it: PairIter) -> Q {
        HASHER_KIND.with(|c| c.set(hasher_code(hasher)));
        match (kind, hasher == "std") {
            ("pq", true) => Q::PqS(QApi::from_iter_it(it)),
            ("pq", false) => Q::PqH(QApi::from_iter_it(it)),
            (_, true) => Q::DqS(QApi::from_iter_it(it)),
            (_, false) => Q::DqH(QApi::from_iter_it(it)),
        }
    }
    pub fn de_tokens(kind: &str, hasher: &str, tokens: &'static [serde_test::Token]) -> Result<Snap, String> {
        HASHER_KIND.with(|c| c.set(hasher_code(hasher)));
        match (kind, hasher == "std") {
            ("pq", true) => <PqS as QApi>::de_tokens_snap(tokens),
            ("pq", false) => <PqH as QApi>::de_tokens_snap(tokens),
            (_, true) => <DqS as QApi>::de_tokens_snap(tokens),
            (_, false) => <DqH as QApi>::de_tokens_snap(tokens),
        }
    }
    pub fn de_json(kind: &str, hasher: &str, s: &str) -> Result<Q, String> {
        HASHER_KIND.with(|c| c.set(hasher_code(hasher)));
        Ok(match (kind, hasher == "std") {
            ("pq", true) => Q::PqS(QApi::de_json(s)?),
            ("pq", false) => Q::PqH(QApi::de_json(s)?),
            (_, true) => Q::DqS(QApi::de_json(s)?),
            (_, false) => Q::DqH(QApi::de_json(s)?),
        })
    }
    /// conversion to the other queue kind (From<PriorityQueue> / From<DoublePriorityQueue>)
    pub fn convert(self) -> Q {
        match self {
            Q::PqS(q) => Q::DqS(q.into()),
            Q::PqH(q) => Q::DqH(q.into()),
            Q::DqS(q) => Q::PqS(q.into()),
            Q::DqH(q) => Q::PqH(q.into()),
        }
    }
}
