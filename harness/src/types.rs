//! Item / priority / hasher types used to drive the real queues, with thread-local
//! instrumentation: comparison counter, crash-point countdowns ("fuel"), live-object counters.
use serde::{Deserialize, Serialize};
use std::borrow::Borrow;
use std::cell::Cell;
use std::cmp::Ordering;
use std::collections::hash_map::{DefaultHasher, RandomState};
use std::hash::{BuildHasher, Hash, Hasher};

thread_local! {
    pub static CMPS: Cell<u64> = const { Cell::new(0) };
    /// countdowns: `None` = never panic; `Some(k)` = calls 1..=k succeed, call k+1 panics
    pub static FUEL_CMP: Cell<Option<u64>> = const { Cell::new(None) };
    pub static FUEL_HASH: Cell<Option<u64>> = const { Cell::new(None) };
    pub static FUEL_EQ: Cell<Option<u64>> = const { Cell::new(None) };
    pub static FUEL_CLONE: Cell<Option<u64>> = const { Cell::new(None) };
    pub static FUEL_CB: Cell<Option<u64>> = const { Cell::new(None) };
    pub static LIVE_ITEMS: Cell<i64> = const { Cell::new(0) };
    pub static LIVE_PRIS: Cell<i64> = const { Cell::new(0) };
    pub static HASHER_KIND: Cell<u8> = const { Cell::new(0) };
    pub static INJECTED: Cell<u64> = const { Cell::new(0) };
}

/// consume one unit of the given countdown; panics when it is exhausted
pub fn tick(cell: &'static std::thread::LocalKey<Cell<Option<u64>>>, what: &str) {
    let fire = cell.with(|c| match c.get() {
        None => false,
        Some(0) => {
            c.set(None); // one-shot: the fault happens once
            true
        }
        Some(k) => {
            c.set(Some(k - 1));
            false
        }
    });
    if fire {
        INJECTED.with(|c| c.set(c.get() + 1));
        panic!("injected fault in {}", what);
    }
}

/// run harness-side instrumentation (e.g. the peek issued before a pop) without consuming crash-point fuel
pub fn unfueled<T>(f: impl FnOnce() -> T) -> T {
    let saved = (FUEL_CMP.with(|c| c.get()), FUEL_HASH.with(|c| c.get()), FUEL_EQ.with(|c| c.get()),
                 FUEL_CLONE.with(|c| c.get()), FUEL_CB.with(|c| c.get()));
    clear_fuel();
    let r = f();
    FUEL_CMP.with(|c| c.set(saved.0));
    FUEL_HASH.with(|c| c.set(saved.1));
    FUEL_EQ.with(|c| c.set(saved.2));
    FUEL_CLONE.with(|c| c.set(saved.3));
    FUEL_CB.with(|c| c.set(saved.4));
    r
}

pub fn clear_fuel() {
    FUEL_CMP.with(|c| c.set(None));
    FUEL_HASH.with(|c| c.set(None));
    FUEL_EQ.with(|c| c.set(None));
    FUEL_CLONE.with(|c| c.set(None));
    FUEL_CB.with(|c| c.set(None));
}

// ------------------------------------------------------------------ Item
#[derive(Debug, Serialize, Deserialize)]
#[serde(from = "RawItem", into = "RawItem")]
pub struct Item {
    pub key: String,
    pub pay: i64,
}
#[derive(Serialize, Deserialize)]
pub struct RawItem {
    k: String,
    pay: i64,
}
impl From<RawItem> for Item {
    fn from(r: RawItem) -> Item {
        Item::new(&r.k, r.pay)
    }
}
impl From<Item> for RawItem {
    fn from(i: Item) -> RawItem {
        RawItem { k: i.key.clone(), pay: i.pay }
    }
}
impl Item {
    pub fn new(key: &str, pay: i64) -> Item {
        LIVE_ITEMS.with(|c| c.set(c.get() + 1));
        Item { key: key.to_string(), pay }
    }
}
impl Clone for Item {
    fn clone(&self) -> Item {
        tick(&FUEL_CLONE, "Clone");
        Item::new(&self.key, self.pay)
    }
}
impl Drop for Item {
    fn drop(&mut self) {
        LIVE_ITEMS.with(|c| c.set(c.get() - 1));
    }
}
impl PartialEq for Item {
    fn eq(&self, o: &Item) -> bool {
        tick(&FUEL_EQ, "Eq");
        self.key == o.key
    }
}
impl Eq for Item {}
/// (only so that `Iterator::min` / `max` / `cmp` can be called on the crate's iterators, whose Item is a pair)
impl PartialOrd for Item {
    fn partial_cmp(&self, o: &Item) -> Option<Ordering> {
        Some(self.cmp(o))
    }
}
impl Ord for Item {
    fn cmp(&self, o: &Item) -> Ordering {
        self.key.cmp(&o.key)
    }
}
impl Hash for Item {
    fn hash<H: Hasher>(&self, state: &mut H) {
        tick(&FUEL_HASH, "Hash");
        self.key.hash(state)
    }
}
impl Borrow<str> for Item {
    fn borrow(&self) -> &str {
        &self.key
    }
}

// ------------------------------------------------------------------ Pri
/// Ordered and compared by `rank` only; `tag` tells re-assignments of an equal value apart.
#[derive(Debug, Serialize, Deserialize)]
#[serde(from = "RawPri", into = "RawPri")]
pub struct Pri {
    pub rank: i64,
    pub tag: i64,
}
#[derive(Serialize, Deserialize)]
pub struct RawPri {
    r: i64,
    t: i64,
}
impl From<RawPri> for Pri {
    fn from(r: RawPri) -> Pri {
        Pri::new(r.r, r.t)
    }
}
impl From<Pri> for RawPri {
    fn from(p: Pri) -> RawPri {
        RawPri { r: unembed(p.rank), t: p.tag }
    }
}
/// script ranks are small integers; +-1000 and beyond are mapped to the extreme values
pub fn embed(r: i64) -> i64 {
    if r <= -1000 {
        i64::MIN
    } else if r >= 1000 {
        i64::MAX
    } else {
        r * (1 << 40)
    }
}
pub fn unembed(x: i64) -> i64 {
    if x == i64::MIN {
        -1000
    } else if x == i64::MAX {
        1000
    } else {
        x / (1 << 40)
    }
}
impl Pri {
    /// `r` is a script rank
    pub fn new(r: i64, tag: i64) -> Pri {
        LIVE_PRIS.with(|c| c.set(c.get() + 1));
        Pri { rank: embed(r), tag }
    }
    /// raw rank (cost engine: ranks are not logged)
    pub fn new_raw(rank: i64, tag: i64) -> Pri {
        LIVE_PRIS.with(|c| c.set(c.get() + 1));
        Pri { rank, tag }
    }
    pub fn r(&self) -> i64 {
        unembed(self.rank)
    }
}
impl Clone for Pri {
    fn clone(&self) -> Pri {
        tick(&FUEL_CLONE, "Clone");
        LIVE_PRIS.with(|c| c.set(c.get() + 1));
        Pri { rank: self.rank, tag: self.tag }
    }
}
impl Drop for Pri {
    fn drop(&mut self) {
        LIVE_PRIS.with(|c| c.set(c.get() - 1));
    }
}
impl Ord for Pri {
    fn cmp(&self, o: &Pri) -> Ordering {
        CMPS.with(|c| c.set(c.get() + 1));
        tick(&FUEL_CMP, "Ord::cmp");
        self.rank.cmp(&o.rank)
    }
}
impl PartialOrd for Pri {
    fn partial_cmp(&self, o: &Pri) -> Option<Ordering> {
        Some(self.cmp(o))
    }
}
impl PartialEq for Pri {
    fn eq(&self, o: &Pri) -> bool {
        self.rank == o.rank
    }
}
impl Eq for Pri {}

// ------------------------------------------------------------------ hashers
/// One BuildHasher type with four behaviours, selected by HASHER_KIND when it is built through
/// `Default` (with_default_hasher, From, FromIterator, Deserialize) or explicitly (with_hasher).
#[derive(Clone, Debug)]
pub enum Hs {
    Fixed,           // BuildHasherDefault<DefaultHasher>-like: SipHash with fixed keys
    Fnv,             // a no_std-friendly FNV-1a
    Collide,         // every item gets the same hash value
    Random(RandomState),
}
pub fn hasher_code(name: &str) -> u8 {
    match name {
        "fixed" => 0,
        "fnv" => 1,
        "collide" => 2,
        "random" => 3,
        _ => 0,
    }
}
impl Hs {
    pub fn of(kind: u8) -> Hs {
        match kind {
            0 => Hs::Fixed,
            1 => Hs::Fnv,
            2 => Hs::Collide,
            _ => Hs::Random(RandomState::new()),
        }
    }
}
impl Default for Hs {
    fn default() -> Hs {
        Hs::of(HASHER_KIND.with(|c| c.get()))
    }
}
pub enum HsHasher {
    Sip(DefaultHasher),
    Fnv(u64),
    Collide,
}
impl Hasher for HsHasher {
    fn finish(&self) -> u64 {
        match self {
            HsHasher::Sip(h) => h.finish(),
            HsHasher::Fnv(x) => *x,
            HsHasher::Collide => 42,
        }
    }
    fn write(&mut self, bytes: &[u8]) {
        match self {
            HsHasher::Sip(h) => h.write(bytes),
            HsHasher::Fnv(x) => {
                for b in bytes {
                    *x ^= *b as u64;
                    *x = x.wrapping_mul(0x100000001b3);
                }
            }
            HsHasher::Collide => {}
        }
    }
}
impl BuildHasher for Hs {
    type Hasher = HsHasher;
    fn build_hasher(&self) -> HsHasher {
        match self {
            Hs::Fixed => HsHasher::Sip(DefaultHasher::new()),
            Hs::Fnv => HsHasher::Fnv(0xcbf29ce484222325),
            Hs::Collide => HsHasher::Collide,
            Hs::Random(r) => HsHasher::Sip(r.build_hasher()),
        }
    }
}
