"""Engines: each produces cases (from TLC or seeded generators), replays them on the real code and
has TLC validate the recorded traces.  They return raw findings; props.py decides which of them
concern which property."""
import json
import os
import random
import time

import vlib
from vlib import log, ToolError

KEYS = "abcdefghij"


def keyset(n):
    return [KEYS[i] for i in range(n)]


class Findings:
    def __init__(self):
        self.fails = []     # dict(kind, hasher, op, cause_op, cause, tags, case, line, events, engine)
        self.aborts = []    # dict(case, rc, stderr, engine)
        self.drift = []     # dict(op, what, engine)
        self.stats = {"states": 0, "transitions": 0, "cases": 0, "events": 0, "traces_ok": 0,
                      "distinct_nontrivial": 0, "engines": []}
        self.samples = []
        self.event_files = []

    def merge(self, o):
        self.fails += o.fails
        self.aborts += o.aborts
        self.drift += o.drift
        for k in ("states", "transitions", "cases", "events", "traces_ok", "distinct_nontrivial"):
            self.stats[k] += o.stats[k]
        self.stats["engines"] += o.stats["engines"]
        self.samples += o.samples
        self.event_files += o.event_files


def replay_and_validate(cases, wd, engine, f, module="TraceQueue", nodrift=False, shards=None, count=True):
    """cases -> harness -> validator; fills findings f"""
    if not cases:
        return
    t = time.time()
    files = vlib.write_cases(cases, wd, shards or vlib.NCPU)
    hr = vlib.run_harness(files, wd)
    bycase = {}
    for c in cases:
        bycase[json.dumps(c["case"])] = c
    for h in hr:
        for ab in h["aborts"]:
            f.aborts.append({"case": ab["case"], "rc": ab["rc"], "stderr": ab["stderr"], "engine": engine})
    t1 = time.time()
    evfiles = [h["events"] for h in hr if os.path.getsize(h["events"]) > 0]
    vr = vlib.validate(evfiles, wd, module=module, nodrift=nodrift)
    t2 = time.time()
    nev = 0
    bad_cases = set()
    for v in vr:
        nev += v["consumed"]
        evs = vlib.Events(v["events"])
        f.stats["failing_events"] = f.stats.get("failing_events", 0) + len(v["fails"])
        histfail = {}
        for fl in v["fails"][:400]:       # attribution is capped per shard; classes are deduplicated anyway
            cid, cstart = evs.case_of(fl["line"])
            cause, cl = evs.cause(fl["line"])
            case = bycase.get(json.dumps(cid))
            bad_cases.add(json.dumps(cid))
            e = evs.ev(fl["line"])
            ph = evs.phase(fl["line"])
            tags = list(fl["tags"])
            if ph == "hist":
                histfail.setdefault(cstart, set()).update(tags)
            else:
                # a probe runs on a clone of the history's final state: what already failed there is not
                # the probe's doing (secondary failure)
                tags = [t for t in tags if t not in histfail.get(cstart, set())]
                if not tags:
                    f.stats["secondary"] = f.stats.get("secondary", 0) + 1
                    continue
            f.fails.append({"kind": fl["kind"] if fl["kind"] != "none" else (case or {}).get("kind", "none"),
                            "hasher": (case or {}).get("hasher", "std"),
                            "op": fl["op"], "cause_op": cause["op"], "cause": slim(cause), "event": slim(e),
                            "tags": tags, "case": case, "caseid": json.dumps(cid), "line": fl["line"],
                            "events": v["events"], "phase": ph, "engine": engine})
        for d in v["drift"]:
            f.drift.append({"op": d["op"], "what": d["what"], "engine": engine})
    f.stats["cases"] += len(cases)
    f.stats["events"] += nev
    f.stats["traces_ok"] += len(cases) - len(bad_cases) - len(f.aborts)
    if count:
        tot, dn = vlib.count_distinct_nontrivial(evfiles, limit_files=4)
        f.stats["distinct_nontrivial"] += dn
    f.event_files += evfiles
    log("[%s] %d cases, %d events: harness %.1fs, validation %.1fs, %d failing events, %d drift, %d aborts"
        % (engine, len(cases), nev, t1 - t, t2 - t1, sum(len(v["fails"]) for v in vr),
           sum(len(v["drift"]) for v in vr), sum(len(h["aborts"]) for h in hr)))


def slim(e):
    e = dict(e)
    for k in ("snap", "gets", "caps", "osnap"):
        e.pop(k, None)
    return e


# ------------------------------------------------------------------------------------------------
# Engine A: exhaustive round trip   MCQueue -> replay (+ probes from every state) -> TraceQueue
# ------------------------------------------------------------------------------------------------
def engine_A(name, kinds, nitems, maxp, probe_filter, wit, hashers=("std",), extra_probes=None,
             wd_name=None, max_states=None, alphabet="full", probe_sample=None, seed=1, tails=None):
    f = Findings()
    for kind in kinds:
        wd = vlib.workdir((wd_name or name) + "_A%s_" % ("" if alphabet == "full" else alphabet) + kind)
        consts = {"Items": vlib.tla_set(keyset(nitems)), "MaxP": str(maxp), "Kind": vlib.tla_str(kind), "Emit": "TRUE",
                  "Alphabet": vlib.tla_str(alphabet)}
        mc = vlib.run_mc("MCQueue", consts, ["WFInv", "OrdInv", "Refines", "PeekInv", "EmitInv"], wd)
        if mc["violated"]:
            raise ToolError("model-level invariant %s violated in MCQueue(%s): the specification itself is "
                            "inconsistent (see %s)" % (mc["violated"], kind, mc["out"]))
        log("[A/%s] MCQueue %d items x %d priorities: %d distinct states, %d transitions, %.1fs; "
            "WFInv OrdInv Refines PeekInv hold" % (kind, nitems, maxp + 1, mc["distinct"], mc["generated"], mc["wall"]))
        f.stats["states"] += mc["distinct"]
        f.stats["transitions"] += mc["generated"]
        f.stats["engines"].append({"engine": "A", "kind": kind, "items": nitems, "priorities": maxp + 1,
                                   "probes_per_state": probe_sample if probe_sample is not None else "all",
                                   "alphabet": alphabet, "distinct_states": mc["distinct"], "transitions": mc["generated"],
                                   "invariants": ["WFInv", "OrdInv", "Refines", "PeekInv"]})
        probes = [p for p in mc["probes"] if probe_filter(p)]
        if extra_probes:
            probes += extra_probes(kind, keyset(nitems), maxp)
        reps = mc["replay"]
        if max_states and len(reps) > max_states:
            reps = reps[:max_states]
        cases = []
        rng = random.Random(seed * 7919 + len(reps))
        if tails is not None:
            # instead of probing clones: one case per (state, tail) whose steps are the history followed by the
            # tail, executed on the SAME queue (so that e.g. capacities are those the history really produced)
            tl = tails(kind, keyset(nitems), maxp)
            for h in hashers:
                for i, r in enumerate(reps):
                    for j, t in enumerate(tl):
                        cases.append({"case": [kind, h, "tail", i, j], "kind": kind, "hasher": h,
                                      "universe": keyset(nitems) + ["z"], "steps": r["steps"] + t, "probes": [],
                                      "wit": wit})
            probes = []
        for h in (hashers if tails is None else ()):
            for i, r in enumerate(reps):
                pr = probes
                if probe_sample is not None and len(probes) > probe_sample:
                    pr = rng.sample(probes, probe_sample)      # seeded sample of the alphabet from this state
                steps = r["steps"]
                if not (steps and steps[0].get("op") in ("from_vec", "from_iter", "de")):
                    # every public constructor takes its turn at creating the queue under test
                    hows = (["new", "with_capacity", "default", "with_default_hasher", "with_capacity_and_default_hasher"]
                            if h == "std" else
                            ["with_hasher", "with_capacity_and_hasher", "default", "with_default_hasher",
                             "with_capacity_and_default_hasher"])
                    steps = [{"op": "new", "q": 0, "how": hows[i % len(hows)], "cap": [0, 1, 5, 64][(i // 5) % 4]}] + steps
                cases.append({"case": [kind, h, alphabet, i], "kind": kind, "hasher": h, "universe": keyset(nitems),
                              "steps": steps, "probes": pr, "wit": wit})
        if cases:
            f.samples.append({"engine": "A", "kind": kind, "history": cases[len(cases) // 2]["steps"],
                              "probes_from_that_state": len(probes)})
        replay_and_validate(cases, wd, "A/" + kind, f)
    return f


# ------------------------------------------------------------------------------------------------
# Engine B: long seeded random histories over larger universes (sizes the exhaustive scope
# cannot reach), validated by the same trace specification
# ------------------------------------------------------------------------------------------------
def random_history(rng, kind, nkeys, nops, ranks, weights=None, check_every=20, sorted_every=None, leak=0):
    if sorted_every is None:
        # a behavioural witness (a clone drained by pops) after every step for the smaller universes
        sorted_every = 1 if nkeys <= 40 else 4
    keys = ["k%d" % i for i in range(nkeys)]
    pops = ["pop"] if kind == "pq" else ["pop_min", "pop_max"]
    popifs = ["pop_if"] if kind == "pq" else ["pop_min_if", "pop_max_if"]
    peeks = ["peek", "peek_mut"] if kind == "pq" else ["peek_min", "peek_max", "peek_min_mut", "peek_max_mut"]
    w = {"push": 30, "push_increase": 5, "push_decrease": 5, "change_priority": 10, "change_priority_by": 6,
         "remove": 8, "pop": 8, "pop_if": 4, "peek": 4, "get": 3, "retain": 1, "retain_mut": 1, "iter_mut": 1,
         "extend": 2, "clear": 0.1, "drain": 0.1, "convert2": 0.3}
    if weights:
        w.update(weights)
    names = list(w)
    steps = []

    def rk():
        return rng.choice(ranks)
    for i in range(nops):
        o = rng.choices(names, [w[n] for n in names])[0]
        k = rng.choice(keys)
        if o in ("push", "push_increase", "push_decrease"):
            steps.append({"op": o, "k": k, "r": rk()})
        elif o == "change_priority":
            steps.append({"op": o, "k": k, "r": rk(), "b": rng.randint(0, 1)})
        elif o == "change_priority_by":
            steps.append({"op": o, "k": k, "r": rk(), "b": rng.randint(0, 1)})
        elif o == "remove":
            steps.append({"op": o, "k": k, "b": rng.randint(0, 1)})
        elif o == "pop":
            steps.append({"op": rng.choice(pops)})
        elif o == "pop_if":
            st = {"op": rng.choice(popifs), "yes": rng.random() < 0.5, "set": [] if rng.random() < 0.5 else [rk()]}
            steps.append(st)
        elif o == "peek":
            steps.append({"op": rng.choice(peeks), "wp": rng.randint(0, 1)})
        elif o == "get":
            steps.append({"op": rng.choice(["get", "get_priority", "get_mut"]), "k": k, "b": rng.randint(0, 1), "wp": 1})
        elif o == "retain":
            keep = [x for x in keys if rng.random() < 0.8]
            steps.append({"op": "retain", "keep": keep})
        elif o == "retain_mut":
            keep = [x for x in keys if rng.random() < 0.8]
            st = {x: rk() for x in keys if rng.random() < 0.3}
            steps.append({"op": "retain_mut", "keep": keep, "set": st, "wp": rng.randint(0, 1)})
        elif o == "iter_mut":
            st = {x: rk() for x in keys if rng.random() < 0.3}
            steps.append({"op": "iter_mut", "n": rng.choice([0, 0, 1, 2, nkeys // 2, nkeys]),
                          "nb": rng.choice([0, 0, 1, 2, nkeys]), "bf": rng.random() < 0.5, "set": st, "wp": rng.randint(0, 1),
                          "forget": bool(leak) and rng.random() < leak, "via_ref": rng.random() < 0.3})
        elif o == "extend":
            m = rng.randint(0, max(1, nkeys // 2))
            pairs = [[rng.choice(keys), rk()] for _ in range(m)]
            hint = rng.choice([None, [0, -1], [0, len(pairs)], [0, len(pairs) + 5], [len(pairs), -1], [0, -4]])
            st = {"op": "extend", "pairs": pairs}
            if hint is not None:
                st["hint"] = hint
            steps.append(st)
        elif o == "clear":
            steps.append({"op": "clear"})
        elif o == "drain":
            steps.append({"op": "drain", "n": rng.choice([0, 1, 2, nkeys])})
        elif o == "convert2":
            steps.append({"op": "convert"})
            steps.append({"op": "convert"})
        if check_every and i % check_every == check_every - 1:
            steps.append({"op": "contents"})
        if sorted_every and i % sorted_every == sorted_every - 1:
            if kind == "pq":
                steps.append({"op": "sorted", "mode": rng.choice(["pop", "vec"])})
            else:
                steps.append({"op": "sorted", "mode": rng.choice(["pop_min", "pop_max", "asc_vec", "desc_vec"])})
    return keys, steps


def engine_B(name, kinds, seed, nhist, nkeys, nops, ranks=None, hashers=("std",), weights=None, wd_name=None,
             check_every=20, leak=0):
    f = Findings()
    rng = random.Random(seed)
    ranks = ranks or list(range(-3, 8)) + [-1000, 1000]
    for kind in kinds:
        wd = vlib.workdir((wd_name or name) + "_B_" + kind)
        cases = []
        for i in range(nhist):
            nk = nkeys if isinstance(nkeys, int) else rng.choice(nkeys)
            keys, steps = random_history(rng, kind, nk, nops, ranks, weights, check_every, leak=leak)
            cases.append({"case": [kind, "B", seed, i], "kind": kind, "hasher": hashers[i % len(hashers)],
                          "universe": keys, "steps": steps, "probes": [], "wit": []})
        f.samples.append({"engine": "B", "kind": kind, "seed": seed, "keys": len(cases[0]["universe"]),
                          "first_steps": cases[0]["steps"][:12]})
        f.stats["engines"].append({"engine": "B", "kind": kind, "histories": nhist, "ops_per_history": nops,
                                   "universe": nkeys, "seed": seed})
        replay_and_validate(cases, wd, "B/" + kind, f)
    return f


# ------------------------------------------------------------------------------------------------
# Engine C: iterator protocol.  MCIter enumerates every call sequence (and checks the cursor
# machines against the contract); the sequences are replayed on the real iterators; IterProto
# (through TraceQueue) validates the recorded results.
# ------------------------------------------------------------------------------------------------
# which cursor machine of MCIter mirrors which real iterator (kept in step with the code: see DESIGN 6.C09)
# ("single" was the machine of DoublePriorityQueue::IterMut in 2.3.1; since the fix 0799aae it is "pair")
MACHINE = {("pq", "iter_mut"): "fwd", ("pq", "iter_mut_ref"): "fwd", ("pq", "sorted"): "fwd"}
BORROWING = ("iter", "iter_ref", "drain", "iter_mut", "iter_mut_ref")
CONSUMING = ("into_iter", "sorted")
ADAPTORS_DX = ["rev", "take", "skip", "enumerate", "zip", "peekable", "fuse", "step_by", "chain", "rev_take",
               "take_rev", "skip_rev"]
NMETHODS = 17      # harness q::METHODS
ADAPTORS_FWD = ["take", "skip", "enumerate", "zip", "peekable", "fuse", "step_by", "chain"]


def machine_of(kind, it):
    return MACHINE.get((kind, it), "pair")


def is_fwd(kind, it):
    return machine_of(kind, it) == "fwd"


def engine_C(name, kinds, iters, sizes, depth, adaptors=True, forget=True, wd_name=None, hashers=("std",), xdepth=None):
    f = Findings()
    wd = vlib.workdir((wd_name or name) + "_C")
    seqs = {}
    xseqs = {}
    xdepth = xdepth or (3 if depth <= 5 else 4)
    predictions = []
    for impl in sorted({machine_of(k, it) for k in kinds for it in iters}):
        for n in sizes:
            # base alphabet (next, next_back, len, size_hint) to `depth`; then the extended alphabet (+ nth, nth_back,
            # last, count, fold, rfold) to `xdepth`, of which only the sequences using an extended call are emitted
            for ext, dp in ((False, depth), (True, xdepth)):
                consts = {"N": str(n), "Depth": str(dp), "Impl": vlib.tla_str(impl), "Emit": "TRUE",
                          "Ext": "TRUE" if ext else "FALSE"}
                mc = vlib.run_mc("MCIter", consts, ["NoDup", "NoPanic", "Fused", "LenExact", "InRange", "PosExact", "EmitInv"],
                                 wd, view=None, workers=4, extra_cfg="", timeout=900, cont=True)
                calls = []
                for line in open(mc["out"]):
                    if line.startswith('<<"CALLS", "'):
                        calls.append(json.loads(vlib.unescape_tla(line.strip()[len('<<"CALLS", "'):-3]))["calls"])
                (xseqs if ext else seqs)[(impl, n)] = calls
                f.stats["states"] += mc["distinct"]
                f.stats["transitions"] += mc["generated"]
                viol = sorted(set(mc["violated"]))
                if viol:
                    predictions.append((impl, n, viol))
                f.stats["engines"].append({"engine": "C", "machine": impl, "n": n, "depth": dp, "extended_alphabet": ext,
                                           "call_sequences": len(calls), "states": mc["distinct"],
                                           "contract_violated_by_machine": viol})
    for impl, n, viol in predictions:
        log("[C] MODEL-PREDICTION: cursor machine '%s' (n=%d) violates %s in the model; the verdict comes from the "
            "replay on the real iterators below" % (impl, n, viol))
    cases = []
    nprobe = 0
    for kind in kinds:
        for n in sizes:
            import itertools
            # priority patterns: ties, descending, and - for the sorted iterators, whose results depend on where the
            # extremes sit in the heap - every permutation of distinct priorities (n <= 4) or a seeded sample
            pats = [[i % 2 for i in range(n)], [n - i for i in range(n)]]
            if "sorted" in iters and n >= 2:
                perms = [list(p) for p in itertools.permutations(range(1, n + 1))]
                if len(perms) > 24:
                    perms = random.Random(n).sample(perms, 24)
                pats += [p for p in perms if p not in pats]
            for pat, ranks in enumerate(pats):
                steps = [{"op": "push", "k": KEYS[i], "r": ranks[i]} for i in range(n)]
                probes = []
                for it in iters:
                    if pat == 1 and it not in ("sorted", "iter_mut"):
                        continue
                    if pat >= 2 and it != "sorted":
                        continue
                    impl = machine_of(kind, it)
                    opn = "into_calls" if it in CONSUMING else "iter_calls"
                    for ci, cs in enumerate(seqs[(impl, n)]):
                        probes.append([{"op": opn, "it": it, "calls": cs + [0] * (n + 2)}])
                        # the same sequence with one call replaced by nth(k) / nth_back(k), or ended by last() / count()
                        # (these have default implementations in std that an override must agree with)
                        if ci % 3 == 0 and cs:
                            j = (ci // 3) % len(cs)
                            kk = (ci // 7) % 3
                            alt = list(cs)
                            alt[j] = [5 if (cs[j] == 1 and not is_fwd(kind, it)) else 4, kk]
                            probes.append([{"op": opn, "it": it, "calls": alt + [2, 3] + [0] * (n + 2)}])
                            fin = 6 if (ci // 3) % 2 == 0 else 7
                            probes.append([{"op": opn, "it": it, "calls": list(cs[:j + 1]) + [fin, 2, 0, 0]}])
                    # last() / count() / nth after every consumed prefix (from the front, and from the back where offered)
                    # the model's sequences over the extended alphabet ([code, k] pairs), padded with next calls
                    for cs in xseqs[(impl, n)]:
                        probes.append([{"op": opn, "it": it, "calls": [list(c) for c in cs] + [3, 0, 0]}])
                    # every provided method (call code [20, m], harness q::METHODS) after every consumed prefix
                    for m in range(0, n + 1):
                        for mi in range(NMETHODS):
                            probes.append([{"op": opn, "it": it, "calls": [0] * m + [[20, mi], 3, 0]}])
                            if not is_fwd(kind, it) and m > 0:
                                probes.append([{"op": opn, "it": it, "calls": [1] * m + [[20, mi], 3, 0]}])
                    # (8 fold, 9 rfold, 10 for_each: internal iteration, which must agree with stepping)
                    for m in range(0, n + 1):
                        for fin in ([6], [7], [[4, 0]], [[4, 1]], [[4, n]], [8], [10]) + (() if is_fwd(kind, it) else ([9],)):
                            probes.append([{"op": opn, "it": it, "calls": [0] * m + fin + [3, 0, 0]}])
                            if not is_fwd(kind, it) and m > 0:
                                probes.append([{"op": opn, "it": it, "calls": [1] * m + fin + [3, 0, 0]}])
                                probes.append([{"op": opn, "it": it, "calls": [0] * m + [[5, 0]] + [3, 1, 0]}])
                    if forget and it in ("drain", "iter_mut"):
                        for cs in ([], [0], [0, 0], [0] * n):
                            bk = "pop" if kind == "pq" else "pop_min"
                            probes.append([{"op": "iter_calls", "it": it, "calls": cs, "forget": True},
                                           {"op": "push", "k": "z", "r": 1}, {"op": bk}, {"op": "contents"},
                                           {"op": "retain", "keep": ["z", "a"]}, {"op": bk}])
                    if adaptors and pat == 0:
                        ads = ADAPTORS_FWD if is_fwd(kind, it) else ADAPTORS_DX
                        for ad in ads:
                            for k in sorted({0, 1, n, n + 1}):
                                if ad in ("enumerate", "zip", "peekable", "fuse", "chain", "rev") and k != 0:
                                    continue
                                for cs in ([2], [3], [0, 2, 3], [1, 2, 3, 0], [2, 0, 0, 2],
                                           [6], [7], [8], [9], [10], [0, 9], [1, 8], [1, 6], [0, 1, 7],
                                           [[20, 0]], [[20, 1]], [[20, 3]], [[20, 7]], [[20, 12]], [0, [20, 14]], [[20, 15]]):
                                    if is_fwd(kind, it) and (1 in cs or 2 in cs or 9 in cs):
                                        cs = [c for c in cs if c not in (1, 2, 9)] or [3]
                                    probes.append([{"op": opn, "it": it, "adapt": ad, "k": k, "calls": cs + [0] * (n + 2)}])
                nprobe += len(probes)
                for h in hashers:
                    # split very long probe lists so that shards stay balanced
                    for j in range(0, max(1, len(probes)), 400):
                        cases.append({"case": [kind, h, n, pat, j], "kind": kind, "hasher": h, "universe": keyset(n) + ["z"],
                                      "steps": steps, "probes": probes[j:j + 400], "wit": []})
    f.samples.append({"engine": "C", "example_probe": cases[-1]["probes"][0] if cases and cases[-1]["probes"] else None,
                      "call_codes": "0 next, 1 next_back, 2 len, 3 size_hint, 4 nth, 5 nth_back, 6 last, 7 count, 8 fold, 9 rfold, 10 for_each"})
    replay_and_validate(cases, wd, "C", f)
    return f


# ------------------------------------------------------------------------------------------------
# Engine E: cost.  Large queues (no snapshots), every measured call logged with the sizes it worked
# on and the number of Ord::cmp calls; TraceCost.tla checks each against Cost!Bound.
# ------------------------------------------------------------------------------------------------
def cost_cases(kind, n, pattern, seed):
    pops = ["pop"] if kind == "pq" else ["pop_min", "pop_max"]
    popifs = ["pop_if"] if kind == "pq" else ["pop_min_if", "pop_max_if"]
    peeks = ["peek", "peek_mut"] if kind == "pq" else ["peek_min", "peek_max", "peek_min_mut", "peek_max_mut"]
    steps = [{"op": "fill", "n": n, "pattern": pattern, "seed": seed}]
    picks = sorted({0, 1, 2, n // 4, n // 2, n - 2, n - 1} & set(range(n)))
    for p in peeks:
        steps.append({"op": p})
    for i in picks:
        k = "k%d" % i
        steps += [{"op": "get", "k": k}, {"op": "get_priority", "k": k, "b": 1},
                  {"op": "change_priority", "k": k, "r": 1000}, {"op": "change_priority", "k": k, "r": -1000},
                  {"op": "change_priority_by", "k": k, "r": 999}, {"op": "change_priority_by", "k": k, "r": -999},
                  {"op": "push", "k": k, "r": 0}, {"op": "push_increase", "k": k, "r": 998},
                  {"op": "push_decrease", "k": k, "r": -998}, {"op": "push_increase", "k": k, "r": -5},
                  {"op": "remove", "k": k}, {"op": "push", "k": k, "r": 997}, {"op": "push", "k": k, "r": -997}]
    for j in range(6):
        steps += [{"op": "push", "k": "x%d" % j, "r": [1000, -1000, 0, 5, -5, 1][j]}]
    for j in range(8):
        for p in pops:
            steps.append({"op": p})
        for p in popifs:
            steps.append({"op": p, "yes": j % 2 == 0, "set": [] if j % 3 else [[-1000, 1000, 0][j % 3]]})
    return steps


def engine_E(name, kinds, sizes, lin_sizes, seed, wd_name=None):
    f = Findings()
    wd = vlib.workdir((wd_name or name) + "_E")
    cases = []
    for kind in kinds:
        for n in sizes:
            for pat in ("asc", "desc", "const", "rand"):
                cases.append({"case": [kind, "log", n, pat], "kind": kind, "hasher": "std", "snap": 0, "universe": [],
                              "steps": cost_cases(kind, n, pat, seed), "probes": [], "wit": []})
        for n in lin_sizes:
            for pat in ("asc", "desc", "const", "rand"):
                g = {"n": n, "pattern": pat, "seed": seed}
                steps = [{"op": "from_vec", "q": 0, "gen": g},
                         {"op": "retain_mut", "rw": "neg"}, {"op": "retain_mut", "rw": "idx"}, {"op": "retain_mut", "rw": "nidx"},
                         {"op": "retain", "keepmod": 7}, {"op": "retain_mut", "keepmod": 2},
                         {"op": "iter_mut", "n": 0}, {"op": "iter_mut", "n": 3},
                         {"op": "convert"}, {"op": "convert"},
                         {"op": "from_iter", "q": 2, "gen": dict(g, prefix="j")},
                         {"op": "from_iter", "q": 3, "gen": dict(g, n=n // 3, prefix="i"), "hint": [0, -1]},
                         {"op": "append", "q": 2, "o": 3}, {"op": "append", "q": 0, "o": 2}]
                cases.append({"case": [kind, "lin", n, pat], "kind": kind, "hasher": "std", "snap": 0, "universe": [],
                              "steps": steps, "probes": [], "wit": []})
                # append of a queue of about the same length whose priorities all lie above (below) the receiver's
                for off in (2 * n + 10, -(2 * n + 10)):
                    st2 = [{"op": "from_vec", "q": 0, "gen": g},
                           {"op": "from_vec", "q": 2, "gen": dict(g, n=max(n - 2, 1), prefix="j", offset=off)},
                           {"op": "append", "q": 0, "o": 2}]
                    cases.append({"case": [kind, "app", n, pat, off], "kind": kind, "hasher": "std", "snap": 0, "universe": [],
                                  "steps": st2, "probes": [], "wit": []})
        # growth sweep: a push of a NEW item measured at EVERY size 0..N (not only at powers of two: the tables grow
        # at other sizes, e.g. 7 * 2^k), then the pops back down, for every pattern
        nsweep = 1200 if max(sizes) <= 65536 else 8000
        for pat in ("asc", "desc", "const", "rand"):
            rs = random.Random(seed * 977 + len(pat))
            def rank(i):
                return {"asc": i, "desc": -i, "const": 0}.get(pat, rs.randint(-1000, 1000))
            steps = [{"op": ["push", "push_increase", "push_decrease"][i % 3 if i % 7 == 0 else 0], "k": "s%d" % i, "r": rank(i)} for i in range(nsweep)]
            pops = ["pop"] if kind == "pq" else ["pop_min", "pop_max"]
            steps += [{"op": pops[i % len(pops)]} for i in range(nsweep // 2)]
            cases.append({"case": [kind, "sweep", nsweep, pat], "kind": kind, "hasher": "std", "snap": 0, "universe": [],
                          "steps": steps, "probes": [], "wit": []})
    f.samples.append({"engine": "E", "sizes": list(sizes), "linear_sizes": list(lin_sizes),
                      "patterns": ["asc", "desc", "const", "rand"], "first_measured_steps": cases[0]["steps"][:6]})
    f.stats["engines"].append({"engine": "E", "cases": len(cases), "sizes": list(sizes), "linear_sizes": list(lin_sizes)})
    replay_and_validate(cases, wd, "E", f, module="TraceCost", count=False)
    # distinct (kind, op, size class) measured
    seen = set()
    for ef in f.event_files[-len(cases):]:
        for ln in open(ef):
            e = json.loads(ln)
            if "n0" in e:
                seen.add((e.get("kind"), e["op"], e["n0"].bit_length()))
    f.stats["distinct_nontrivial"] += len(seen)
    return f


# ------------------------------------------------------------------------------------------------
# Engine D: faults.  MCFault model-checks the crash-point semantics (NoUB, SafeRep) and proposes the
# schedules that reach undefined behaviour in the model; the harness sweeps EVERY crash point k of every
# callback class on the real code from every covered state, runs continuations on the damaged queue and
# drops everything.  A violation needs a concrete unsafe access (the harness process dies in std's
# precondition check / by signal) or a drop imbalance.
# ------------------------------------------------------------------------------------------------
def fault_conts(kind, keys, tier):
    pm = ["pop"] if kind == "pq" else ["pop_min", "pop_max"]
    n = len(keys)
    conts = [
        [{"op": pm[0]}] * (n + 2),
        [{"op": pm[-1]}, {"op": "push", "k": "z", "r": 5}, {"op": "push", "k": "y", "r": -5}, {"op": pm[0]}, {"op": pm[-1]}],
        [{"op": "remove", "k": k} for k in keys] + [{"op": "push", "k": "z", "r": 0}],
        [{"op": "change_priority", "k": keys[0], "r": 9}, {"op": "change_priority", "k": keys[-1], "r": -9}, {"op": pm[0]}, {"op": pm[0]}],
        [{"op": "retain", "keep": keys[1:]}, {"op": pm[0]}, {"op": "push", "k": "z", "r": 1}],
        [{"op": "iter_mut", "n": n, "set": {keys[0]: 7}}, {"op": pm[-1]}],
        [{"op": "push", "k": "z", "r": 3}, {"op": "push", "k": "y", "r": 4}, {"op": "push", "k": "x", "r": 2}] + [{"op": pm[0]}] * 3,
        [{"op": "contents"}, {"op": "iter_calls", "it": "drain", "calls": [0, 0]}, {"op": "push", "k": "z", "r": 1}, {"op": pm[0]}],
        [{"op": "extend", "pairs": [["z", 1], [keys[0], 2]]}, {"op": "convert"}, {"op": "pop" if kind == "dpq" else "pop_min"}],
        [{"op": pm[0]}, {"op": pm[-1]}, {"op": "change_priority", "k": "z", "r": 4}, {"op": "change_priority", "k": keys[-1], "r": -4},
         {"op": "change_priority_by", "k": "y", "r": 6}, {"op": pm[0]}],
    ]
    if tier == "thorough":
        # second faults inside the continuation
        conts += [
            [{"op": "push", "k": "z", "r": 9, "fault": {"cmp": 0}}, {"op": pm[0]}, {"op": pm[0]}],
            [{"op": "push", "k": "z", "r": 9, "fault": {"cmp": 1}}, {"op": "push", "k": "y", "r": 9}, {"op": pm[0]}, {"op": pm[0]}],
            [{"op": "change_priority", "k": keys[-1], "r": 9, "fault": {"cmp": 0}}, {"op": pm[-1]}, {"op": pm[0]}],
            [{"op": "retain_mut", "keep": keys, "set": {}, "fault": {"cb": 1}}, {"op": "push", "k": "z", "r": 9}, {"op": pm[0]}, {"op": pm[0]}],
        ]
    return conts


def fault_ops(kind, keys, maxp):
    pm = ["pop"] if kind == "pq" else ["pop_min", "pop_max"]
    pif = ["pop_if"] if kind == "pq" else ["pop_min_if", "pop_max_if"]
    ops = []
    for k in keys + ["z"]:
        for r in (0, maxp, maxp + 3, -3):
            ops.append({"op": "push", "k": k, "r": r})
        ops.append({"op": "push_increase", "k": k, "r": maxp + 3})
        ops.append({"op": "push_decrease", "k": k, "r": -3})
        ops.append({"op": "change_priority", "k": k, "r": maxp + 3})
        ops.append({"op": "change_priority", "k": k, "r": -3})
        ops.append({"op": "change_priority_by", "k": k, "r": maxp + 3})
        ops.append({"op": "remove", "k": k})
    for p in pm:
        ops.append({"op": p})
    for p in pif:
        ops.append({"op": p, "yes": True, "set": [-3]})
        ops.append({"op": p, "yes": False, "set": [maxp + 3]})
    ops.append({"op": "retain", "keep": keys[:-1]})
    ops.append({"op": "retain_mut", "keep": keys[1:], "set": {keys[-1]: maxp + 3}})
    ops.append({"op": "retain_mut", "keep": keys, "set": {keys[0]: -3}})
    ops.append({"op": "iter_mut", "n": len(keys), "set": {keys[0]: maxp + 3, keys[-1]: -3}})
    ops.append({"op": "extend", "pairs": [["z", maxp + 3], [keys[0], -3], ["y", 0]]})
    ops.append({"op": "extend", "pairs": [["z", maxp + 3], [keys[0], -3], ["y", 0]], "hint": [0, -1]})
    ops.append({"op": "convert"})
    ops.append({"op": "clone_into", "to": 5})
    # append with a second queue (rebuilt before every attempt): other shorter, equal, longer; with clashes
    for oth in ([["z", 1]], [["z", 1], [keys[0], maxp]], [["z", 1], ["y", 0], [keys[-1], 2], ["x", 3]]):
        ops.append({"op": "append", "o": 3, "obuild": [{"op": "push", "k": k, "r": r} for k, r in oth]})
    return ops


def engine_D(name, kinds, nitems, maxp, tier, seed, wd_name=None, model=True, model_scope=None):
    f = Findings()
    for kind in kinds:
        wd = vlib.workdir((wd_name or name) + "_D_" + kind)
        ubsched = []
        if model:
            ms = model_scope or {"Items": nitems + 1, "MaxP": 1, "MaxFaults": 1, "MaxK": 4, "MaxAfter": 2, "MaxSize": nitems + 1}
            consts = {"Items": vlib.tla_set(keyset(ms["Items"])), "MaxP": str(ms["MaxP"]), "Kind": vlib.tla_str(kind),
                      "MaxFaults": str(ms["MaxFaults"]), "MaxK": str(ms["MaxK"]), "MaxAfter": str(ms["MaxAfter"]),
                      "MaxSize": str(ms["MaxSize"])}
            mc = vlib.run_mc("MCFault", consts, ["EmitUB", "NoUB", "SafeRep"], wd, cont=True, timeout=3000)
            for line in open(mc["out"]):
                if line.startswith('<<"UBSCHEDULE", "'):
                    ubsched.append(json.loads(vlib.unescape_tla(line.strip()[len('<<"UBSCHEDULE", "'):-3])))
            viol = sorted(set(mc["violated"]))
            log("[D/%s] MCFault %s: %d distinct states, %d transitions, %.0fs; %s"
                % (kind, ms, mc["distinct"], mc["generated"], mc["wall"],
                   "NoUB and SafeRep hold for every crash point" if not viol else
                   "MODEL-PREDICTION: %s violated (%d schedules reach an unchecked out-of-bounds access in the model; "
                   "they are replayed on the real code below)" % (viol, len(ubsched))))
            f.stats["states"] += mc["distinct"]
            f.stats["transitions"] += mc["generated"]
            f.stats["engines"].append({"engine": "MCFault", "kind": kind, "scope": ms, "distinct_states": mc["distinct"],
                                       "violated_in_model": viol, "ub_schedules": len(ubsched)})
        if model:
            # inductiveness: ONE step (clean or with any injected panic) from EVERY SafeRep store, reachable or not
            ind = dict(consts)
            ind["MaxSize"] = "3" if tier == "quick" else "4"
            ind["MaxAfter"] = "1"
            mi = vlib.run_mc("MCFaultInd", ind, ["NoUB", "SafeRep"], wd, init="IndInit", nxt="IndNext", view=None, timeout=3000)
            if mi["violated"]:
                log("[D/%s] MODEL-PREDICTION: SafeRep is not inductive in the model: %s (see %s)" % (kind, sorted(set(mi["violated"])), mi["out"]))
            else:
                log("[D/%s] MCFaultInd: from every SafeRep store of <= %s entries one step of every operation, fault free or with a "
                    "panic at any callback, performs no unchecked out-of-bounds access and leads to a SafeRep store: %d states"
                    % (kind, ind["MaxSize"], mi["distinct"]))
            f.stats["states"] += mi["distinct"]
            f.stats["transitions"] += mi["generated"]
            f.stats["engines"].append({"engine": "MCFaultInd", "kind": kind, "max_size": ind["MaxSize"],
                                       "distinct_states": mi["distinct"], "violated_in_model": sorted(set(mi["violated"]))})
        # covered states: the covering histories of the exhaustive model
        wd2 = vlib.workdir((wd_name or name) + "_Dstates_" + kind)
        consts = {"Items": vlib.tla_set(keyset(nitems)), "MaxP": str(maxp), "Kind": vlib.tla_str(kind), "Emit": "TRUE",
                  "Alphabet": vlib.tla_str("core")}
        mq = vlib.run_mc("MCQueue", consts, ["WFInv", "OrdInv", "Refines", "EmitInv"], wd2)
        keys = keyset(nitems)
        ops = fault_ops(kind, keys, maxp)
        conts = fault_conts(kind, keys, tier)
        cases = []
        # model-proposed schedules first: each is a plain history with one faulty step
        for i, sc in enumerate(ubsched[:40]):
            steps = []
            for h in sc["hist"]:
                if "fault" in h:
                    o = dict(h["op"])
                    cls = h["fault"]["class"]
                    o["fault"] = {("hash" if cls == "look" else cls): h["fault"]["k"]}
                    steps.append(o)
                else:
                    steps.append(h)
            cases.append({"case": [kind, "ubschedule", i], "kind": kind, "hasher": "std", "universe": keyset(nitems + 1),
                          "steps": steps, "probes": [], "wit": [], "sweep": {"ops": [], "classes": [], "conts": []}})
        for i, r in enumerate(mq["replay"]):
            for j in range(0, len(ops), 6):
                cases.append({"case": [kind, "sweep", i, j], "kind": kind, "hasher": ["std", "fixed"][i % 2],
                              "universe": keys + ["z", "y", "x"], "steps": r["steps"], "probes": [], "wit": [],
                              "sweep": {"ops": ops[j:j + 6], "classes": ["cmp", "hash", "eq", "cb", "clone"], "maxk": 60,
                                        "conts": conts}})
        # larger states (several heap levels: sift-ups that cross two and more levels) built by seeded pushes
        rng = random.Random(seed * 31 + len(kind))
        pm = ["pop"] if kind == "pq" else ["pop_min", "pop_max"]
        for size in ((8, 11, 16, 24) if tier == "quick" else (8, 9, 11, 15, 16, 17, 24, 31, 32, 40)):
            for rep in range(2 if tier == "quick" else 4):
                bk = ["k%d" % i for i in range(size)]
                base = [{"op": "push", "k": k, "r": rng.randint(-3, 9)} for k in bk]
                picks = rng.sample(bk, 4) + [bk[-1], bk[0]]
                bops = [{"op": "push", "k": "z", "r": r} for r in (-5, 3, 12)]
                for k in picks:
                    bops += [{"op": "change_priority", "k": k, "r": -5}, {"op": "change_priority", "k": k, "r": 12},
                             {"op": "push", "k": k, "r": rng.randint(-3, 9)}, {"op": "remove", "k": k},
                             {"op": "change_priority_by", "k": k, "r": 12}, {"op": "push_increase", "k": k, "r": 12},
                             {"op": "push_decrease", "k": k, "r": -5}]
                bops += [{"op": p} for p in pm]
                newk = ["n%d" % i for i in range(6)]
                prs = [[k, rng.randint(-3, 9)] for k in newk[:3] + picks[:2] + newk[3:]]
                bops += [{"op": "extend", "pairs": prs, "hint": [0, -4]}, {"op": "extend", "pairs": prs, "hint": [0, -1]},
                         {"op": "extend", "pairs": prs}]
                bconts = [[{"op": pm[0]}] * 3 + [{"op": pm[-1]}] * 3,
                          [{"op": "remove", "k": k} for k in picks] + [{"op": "push", "k": "y", "r": 0}, {"op": pm[0]}],
                          [{"op": "push", "k": "y", "r": 12}, {"op": "push", "k": "x", "r": -5}, {"op": pm[-1]}, {"op": pm[0]}],
                          [{"op": "change_priority", "k": picks[0], "r": 0}, {"op": "retain", "keep": bk[1:]}, {"op": pm[0]}],
                          [{"op": "change_priority", "k": "n0", "r": 5}, {"op": "change_priority_by", "k": "n1", "r": -5},
                           {"op": "push", "k": "n2", "r": 3}, {"op": "remove", "k": "n0"}, {"op": pm[0]}]]
                for j in range(0, len(bops), 8):
                    cases.append({"case": [kind, "sweep-big", size, rep, j], "kind": kind, "hasher": "std",
                                  "universe": bk + ["z", "y", "x"], "steps": base, "probes": [], "wit": [],
                                  "sweep": {"ops": bops[j:j + 8], "classes": ["cmp", "cb", "hash"], "maxk": 80, "conts": bconts}})
        # leaked guards (mem::forget of iter_mut / drain after every consumed prefix), then every continuation
        for i, r in enumerate(mq["replay"]):
            lk = []
            for cnt in range(0, nitems + 1):
                lk.append([{"op": "iter_mut", "n": cnt, "nb": (cnt % 2), "set": {keys[0]: maxp + 3, keys[-1]: -3}, "forget": True}])
                lk.append([{"op": "iter_calls", "it": "iter_mut", "calls": [0] * cnt, "forget": True}])
                lk.append([{"op": "iter_calls", "it": "drain", "calls": [0] * cnt + [1] * (cnt % 2), "forget": True}])
            probes = [l + c for l in lk for c in conts]
            cases.append({"case": [kind, "leak", i], "kind": kind, "hasher": "std", "universe": keys + ["z", "y", "x"],
                          "steps": r["steps"], "probes": probes, "wit": []})
        f.samples.append({"engine": "D", "kind": kind, "example_state_history": mq["replay"][-1]["steps"],
                          "swept_operation": ops[0], "classes": ["cmp", "hash", "eq", "cb", "clone"],
                          "continuations": len(conts)})
        f.stats["engines"].append({"engine": "D", "kind": kind, "states": len(mq["replay"]), "ops": len(ops),
                                   "continuations": len(conts), "model_schedules_replayed": min(len(ubsched), 40)})
        replay_and_validate(cases, wd, "D/" + kind, f, count=False)
        # crash points exercised = events with an injected fault
        inj = 0
        for ef in f.event_files:
            if "_D_" in ef:
                for ln in open(ef):
                    if '"injected":0' not in ln and '"injected":' in ln:
                        inj += 1
        f.stats["distinct_nontrivial"] = inj
    return f


# ------------------------------------------------------------------------------------------------
# Engine S: behaviours generated by the specification itself (`tlc -simulate` on MCSim) over larger
# universes, checked by TLC against the model invariants, then replayed on the real code and validated
# ------------------------------------------------------------------------------------------------
def engine_S(name, kinds, nitems, maxp, num, depth, seed, wit, wd_name=None):
    f = Findings()
    for kind in kinds:
        wd = vlib.workdir((wd_name or name) + "_S_" + kind)
        keys = ["k%02d" % i for i in range(nitems)]
        consts = {"Items": vlib.tla_set(keys), "MaxP": str(maxp), "Kind": vlib.tla_str(kind), "Emit": "FALSE",
                  "Alphabet": vlib.tla_str("core"), "SimDepth": str(depth)}
        mc = vlib.run_mc("MCSim", consts, ["WFInv", "OrdInv", "Refines", "PeekInv", "EmitSim"], wd, view=None,
                         nxt="SimNext", simulate="num=%d" % num, seed=seed, workers=8, timeout=1200, depth=depth + 1)
        if mc["violated"]:
            raise ToolError("model-level invariant %s violated in a simulated behaviour (see %s)" % (mc["violated"], mc["out"]))
        reps = mc["replay"]
        log("[S/%s] tlc -simulate: %d behaviours of %d steps over %d items x %d priorities satisfy WFInv OrdInv Refines PeekInv"
            % (kind, len(reps), depth, nitems, maxp + 1))
        f.stats["engines"].append({"engine": "S", "kind": kind, "items": nitems, "priorities": maxp + 1,
                                   "behaviours": len(reps), "depth": depth, "seed": seed})
        f.stats["transitions"] += len(reps) * depth
        cases = [{"case": [kind, "sim", i], "kind": kind, "hasher": "std", "universe": keys, "steps": r["steps"],
                  "probes": [], "wit": wit, "witsteps": 1} for i, r in enumerate(reps)]
        if cases:
            f.samples.append({"engine": "S", "kind": kind, "first_steps": cases[0]["steps"][:8]})
        replay_and_validate(cases, wd, "S/" + kind, f)
    return f


# ------------------------------------------------------------------------------------------------
# Engine M: mid-size states, every position.  Seeded states of 8-40 elements (several heap levels, ties)
# built by pushes / from_vec, then EVERY operation of the core alphabet probed from them for every stored key
# (so that every heap position and every slot index is addressed), with witness drains.
# ------------------------------------------------------------------------------------------------
def engine_M(name, kinds, sizes, reps, seed, wit, ops_filter=None, wd_name=None, hashers=("std",)):
    f = Findings()
    rng = random.Random(seed * 101 + 7)
    for kind in kinds:
        wd = vlib.workdir((wd_name or name) + "_M_" + kind)
        pops = ["pop"] if kind == "pq" else ["pop_min", "pop_max"]
        popifs = ["pop_if"] if kind == "pq" else ["pop_min_if", "pop_max_if"]
        cases = []
        for n in sizes:
            for rep in range(reps):
                keys = ["k%d" % i for i in range(n)]
                nprio = rng.choice([3, 5, n, 2 * n])               # many ties ... all distinct
                pri = [rng.randrange(nprio) for _ in keys]
                if rep % 3 == 0:
                    steps = [{"op": "push", "k": k, "r": r} for k, r in zip(keys, pri)]
                elif rep % 3 == 1:
                    steps = [{"op": "from_vec", "q": 0, "pairs": [[k, r] for k, r in zip(keys, pri)]}]
                else:
                    # pushes followed by a few removals and re-insertions: slot order differs from heap order
                    steps = [{"op": "push", "k": k, "r": r} for k, r in zip(keys, pri)]
                    for k in rng.sample(keys, max(1, n // 4)):
                        steps += [{"op": "remove", "k": k}, {"op": "push", "k": k, "r": rng.randrange(nprio)}]
                lo, hi, mid = -1, nprio + 1, nprio // 2
                probes = []
                for k in keys + ["zz"]:
                    for r in (lo, mid, hi):
                        probes.append([{"op": "push", "k": k, "r": r}])
                        probes.append([{"op": "change_priority", "k": k, "r": r}])
                    probes.append([{"op": "change_priority_by", "k": k, "r": rng.choice([lo, mid, hi])}])
                    probes.append([{"op": "push_increase", "k": k, "r": rng.choice([mid, hi])}])
                    probes.append([{"op": "push_decrease", "k": k, "r": rng.choice([lo, mid])}])
                    probes.append([{"op": "remove", "k": k}])
                for p in pops:
                    probes.append([{"op": p}])
                    probes.append([{"op": p}, {"op": p}, {"op": p}])
                for p in popifs:
                    for st in ([], [lo], [hi], [mid]):
                        probes.append([{"op": p, "yes": False, "set": st}])
                        probes.append([{"op": p, "yes": True, "set": st}])
                if ops_filter:
                    probes = [p for p in probes if ops_filter(p[0])]
                for j in range(0, len(probes), 120):
                    cases.append({"case": [kind, "M", n, rep, j], "kind": kind, "hasher": hashers[(rep + j) % len(hashers)],
                                  "universe": keys + ["zz"], "steps": steps, "probes": probes[j:j + 120], "wit": wit})
        f.samples.append({"engine": "M", "kind": kind, "sizes": list(sizes), "probes_from_each_state": "every stored key x "
                          "{push, change_priority(_by), push_increase/decrease, remove} x {below, middle, above}, pops, pop_if"})
        f.stats["engines"].append({"engine": "M", "kind": kind, "sizes": list(sizes), "states": len(sizes) * reps, "cases": len(cases)})
        replay_and_validate(cases, wd, "M/" + kind, f)
    return f
